----------------------------- MODULE BatchKernel -----------------------------
(* Layer B kernel: the v2 engine's batch (pkg/lifecycle-poc/funnel/batch.go, type Batch) as an abstract
   data type.  It serves C05 (order, no duplicate within a run) and C08 (every record exactly one outcome,
   no other record's outcome affected, split pieces, positions immutable).

   ABSTRACT MEANING.  A batch is a SEQUENCE OF SLOTS.  A slot is
       [o    : the source record (origin, 1..n) the slot's record descends from,
        path : which piece of the origin it is (<<>> = never split; <<2,1>> = first piece of a split of
               the second piece of a split of the origin),
        flag : "ack" | "nack" | "retry" | "filter"    (exactly one per slot),
        ver  : the payload version (0 = as read; SetRecords / SplitRecord number k of a sequence writes k),
        err  : an error is attached (Nack attaches one, nothing removes it),
        pos  : the slot carries the origin's SOURCE POSITION (the first slot of an origin; tail pieces
               of a split carry none; the position is the batch's own copy, never what a record says),
        run  : the slot belongs to a split run (set for every piece by SplitRecord, carried by sub/clone)]
   plus   fc      : the filter counter (every Filter call adds the number of records it marked; sub()
                    recounts the Filter flags of its window when the parent's counter is not 0).  It is a
                    counter, not a census: a Nack that spreads over a run turns the run's filtered pieces
                    into nacked ones and leaves the counter alone, so fc >= number of filtered slots
                    (FcCovers); under the caller contract that is invisible through ActiveRecords /
                    HasActiveRecords (ActiveByCounter, HasActiveByCounter),
          tainted : Nack or Retry was called on THIS batch (sub() starts clean, clone() copies),
          known   : the origins this batch knows as split (the keys of Batch.splitRecords), with
          orig    : the record that stood in the slot when the origin was FIRST split (its version).

   INDEX CONVENTIONS (read off the code and its callers, funnel/processor.go and funnel/worker.go):
     * Ack / Retry / Filter (i [, j]), Nack(i, errs...), SetRecords(i, recs), SplitRecord(i, recs) take
       indices INTO ActiveRecords() - the non-filtered slots in slot order; filtered slots are holes that
       are skipped, never touched.   Ranges are [i, j), 0-based.
     * sub(from, to) takes ABSOLUTE slot indices [from, to) (worker.subBatchByFlag walks recordStatuses).
   OPERATIONS
     Filter/Ack/Retry(i, j) : the flag of the active records i..j-1 becomes filter/ack/retry; nothing else
                              about the slot changes (an attached error stays).
     Nack(i, c)             : the active records i..i+c-1 get flag nack and an error.  In a batch that knows
                              some split record (known # {}), nacking a piece - a tail piece, or the head of
                              a known origin - marks EVERY slot of that origin in the batch the same way,
                              filtered pieces included (setFlagWithErr / findSplitRecord: "all records in the
                              split record are marked with the same flag and error").  A batch that knows no
                              split record (a sub-batch holding only tail pieces: "a pure-tail sub-batch always
                              loses that map entry", Batch.runs doc) marks the named records only; the run
                              ledger (run_ledger.go) accounts for the run there.
     SetRecords(i, k)       : the k active records from i on get a new payload version, each in ITS OWN slot;
                              holes are skipped; flags, positions, order untouched.
     SplitRecord(i, k)      : active record i is replaced, in place, by k pieces path+<<1>>..path+<<k>>; the
                              first piece keeps the slot's flag, error and position, the others are
                              ack / no error / no position; every piece is in the run; everything behind moves
                              right.  The first split of an origin records the record that stood there.
     sub(from, to)          : a batch of the slots [from, to); operations on it never change a slot of the
                              parent outside [from, to), nor the parent's length, counter or taint.  (Inside
                              the window parent and child share storage until the child's first split; there
                              only the origin, piece and position of the parent's slots are compared.)
     clone()                : an independent copy; operations on it never change the parent at all.
     ActiveRecords()        : the records of the non-filtered slots, in slot order.
     HasActiveRecords()     : some slot is not filtered.
     originalBatch()        : for every slot that carries a position, in slot order: the origin's original
                              record (orig) if the origin is known as split, else the slot's record; with the
                              slot's flag and error.  (Position-less entries - tail pieces in a batch that
                              knows no split - are not part of the comparison: no position is acked from them.)

   CALLER CONTRACT (the space TLC explores): indices lie within the active records, ranges are not empty,
   SplitRecord gets >= 2 pieces, 0 <= from < to <= length, one level of sub/clone, and NackFinal: no operation
   is aimed at a record that is flagged nack (the worker hands nacked groups to the DLQ and never processes
   them again; ProcessorTask.Do marks disjoint ranges).  Outside NackFinal the counter can reach or pass the
   length while records are active (split, filter a piece, nack the run, filter the run again): the model's
   HasActiveByCounter fails there and the real type returns no active records or panics in makeslice.

   TLC checks the invariants below over every operation sequence within the bounds and, with Emit, prints
   every sequence with the expected final views (conformance cases for harness/drivers/batchk).            *)
EXTENDS Naturals, Sequences, FiniteSets, TLC, Json

CONSTANTS Sizes,      \* the root batch has n records, n \in Sizes (chosen once, in Init)
          MaxOps,     \* longest operation sequence (sub / clone count as one operation)
          Kinds,      \* operation kinds explored: subset of {"filter","ack","retry","nack","set","split","sub","clone"}
          MaxPieces,  \* SplitRecord produces 2..MaxPieces pieces
          MaxSpan,    \* longest index range of Filter / Ack / Retry / Nack
          MinSet,     \* SetRecords writes at least MinSet records (1 = any)
          NackFinal,  \* TRUE: the caller contract NackFinal is in force (FALSE only to explore what lies outside it)
          Emit        \* TRUE: print every operation sequence with the expected views

VARIABLES n,       \* records in the root batch
          cur,     \* the batch the operations are applied to (the root batch, then the sub-batch / clone)
          par,     \* the parent as it was when sub / clone was taken (Empty before)
          mode,    \* "root" | "sub" | "clone"
          win,     \* <<from, to>> of the sub-batch (0-based, absolute slots)
          script   \* the operations so far: <<kind, a, b>>
vars == <<n, cur, par, mode, win, script>>

Empty == [slots |-> <<>>, fc |-> 0, tainted |-> FALSE, known |-> {}, orig |-> <<>>]

Init == /\ n \in Sizes
        /\ cur = [slots |-> [s \in 1..n |-> [o |-> s, path |-> <<>>, flag |-> "ack", ver |-> 0, err |-> FALSE,
                                            pos |-> TRUE, run |-> FALSE]],
                  fc |-> 0, tainted |-> FALSE, known |-> {}, orig |-> <<>>]
        /\ par = Empty /\ mode = "root" /\ win = <<0, 0>> /\ script = <<>>

\* ---------------------------------------------------------------- the abstract data type
RECURSIVE ActFrom(_, _)
ActFrom(sl, s) == IF s > Len(sl) THEN <<>>
                  ELSE (IF sl[s].flag # "filter" THEN <<s>> ELSE <<>>) \o ActFrom(sl, s + 1)
Act(b) == ActFrom(b.slots, 1)          \* slot numbers (1-based) of the active records, in order
NAct(b) == Len(Act(b))
Idx(b) == 1..Len(b.slots)

DoRange(b, kind, i, j) ==
  LET A == Act(b)
      T == {A[a] : a \in (i + 1)..j} IN
  [b EXCEPT !.slots = [s \in Idx(b) |-> IF s \in T THEN [b.slots[s] EXCEPT !.flag = kind] ELSE b.slots[s]],
            !.fc = IF kind = "filter" THEN @ + (j - i) ELSE @,
            !.tainted = IF kind = "retry" THEN TRUE ELSE @]

DoNack(b, i, c) ==
  LET A == Act(b)
      sl == b.slots
      T == {A[a] : a \in (i + 1)..(i + c)}
      P == IF b.known = {} THEN {}
           ELSE {s \in Idx(b) : \E t \in T : sl[s].o = sl[t].o /\ (~sl[t].pos \/ sl[t].o \in b.known)}
      X == T \cup P IN
  [b EXCEPT !.slots = [s \in Idx(b) |-> IF s \in X THEN [sl[s] EXCEPT !.flag = "nack", !.err = TRUE] ELSE sl[s]],
            !.tainted = TRUE]

DoSet(b, i, k, st) ==
  LET A == Act(b)
      T == {A[a] : a \in (i + 1)..(i + k)} IN
  [b EXCEPT !.slots = [s \in Idx(b) |-> IF s \in T THEN [b.slots[s] EXCEPT !.ver = st] ELSE b.slots[s]]]

DoSplit(b, i, k, st) ==
  LET sl == b.slots
      s == Act(b)[i + 1]
      h == sl[s]
      head == [h EXCEPT !.path = Append(@, 1), !.ver = st, !.run = TRUE]
      tails == [p \in 1..(k - 1) |-> [o |-> h.o, path |-> Append(h.path, p + 1), flag |-> "ack", ver |-> st,
                                      err |-> FALSE, pos |-> FALSE, run |-> TRUE]]
      first == ~h.run IN
  [b EXCEPT !.slots = SubSeq(sl, 1, s - 1) \o <<head>> \o tails \o SubSeq(sl, s + 1, Len(sl)),
            !.known = IF first THEN @ \cup {h.o} ELSE @,
            !.orig = IF first THEN [o \in b.known \cup {h.o} |-> IF o = h.o THEN h.ver ELSE b.orig[o]] ELSE @]

DoSub(b, from, to) ==
  LET sl == SubSeq(b.slots, from + 1, to)
      kn == {o \in b.known : \E s \in 1..Len(sl) : sl[s].o = o /\ sl[s].pos} IN
  [slots |-> sl,
   fc |-> IF b.fc > 0 THEN Cardinality({s \in 1..Len(sl) : sl[s].flag = "filter"}) ELSE 0,
   tainted |-> FALSE, known |-> kn, orig |-> [o \in kn |-> b.orig[o]]]

RECURSIVE OrigFrom(_, _)
OrigFrom(b, s) ==
  IF s > Len(b.slots) THEN <<>>
  ELSE LET h == b.slots[s] IN
       (IF h.pos THEN << IF h.o \in b.known THEN <<h.o, <<>>, b.orig[h.o], h.flag, h.err>>
                                            ELSE <<h.o, h.path, h.ver, h.flag, h.err>> >>
        ELSE <<>>) \o OrigFrom(b, s + 1)
Original(b) == OrigFrom(b, 1)

Targetable(b, i, j) ==    \* NackFinal: the active records i..j-1 (0-based) carry no nack flag
  LET A == Act(b) IN NackFinal => \A a \in (i + 1)..j : b.slots[A[a]].flag # "nack"

\* ---------------------------------------------------------------- actions
Apply(b, op) == cur' = b /\ script' = Append(script, op) /\ UNCHANGED <<n, par, mode, win>>
Step == Len(script) + 1

OpRange == \E kind \in {"filter", "ack", "retry"} \cap Kinds, i \in 0..(NAct(cur) - 1), j \in 1..NAct(cur) :
             /\ i < j /\ j - i <= MaxSpan /\ Targetable(cur, i, j)
             /\ Apply(DoRange(cur, kind, i, j), <<kind, i, j>>)
OpNack == /\ "nack" \in Kinds
          /\ \E i \in 0..(NAct(cur) - 1), c \in 1..MaxSpan :
               /\ i + c <= NAct(cur) /\ Targetable(cur, i, i + c)
               /\ Apply(DoNack(cur, i, c), <<"nack", i, c>>)
OpSet == /\ "set" \in Kinds
         /\ \E i \in 0..(NAct(cur) - 1), k \in MinSet..NAct(cur) :
              /\ i + k <= NAct(cur) /\ Targetable(cur, i, i + k)
              /\ Apply(DoSet(cur, i, k, Step), <<"set", i, k>>)
OpSplit == /\ "split" \in Kinds
           /\ \E i \in 0..(NAct(cur) - 1), k \in 2..MaxPieces :
                /\ Targetable(cur, i, i + 1)
                /\ Apply(DoSplit(cur, i, k, Step), <<"split", i, k>>)
OpSub == /\ "sub" \in Kinds /\ mode = "root"
         /\ \E from \in 0..(Len(cur.slots) - 1), to \in 1..Len(cur.slots) :
              /\ from < to
              /\ cur' = DoSub(cur, from, to) /\ par' = cur /\ mode' = "sub" /\ win' = <<from, to>>
              /\ script' = Append(script, <<"sub", from, to>>) /\ UNCHANGED n
OpClone == /\ "clone" \in Kinds /\ mode = "root"
           /\ cur' = cur /\ par' = cur /\ mode' = "clone" /\ win' = <<0, Len(cur.slots)>>
           /\ script' = Append(script, <<"clone", 0, 0>>) /\ UNCHANGED n

Next == Len(script) < MaxOps /\ (OpRange \/ OpNack \/ OpSet \/ OpSplit \/ OpSub \/ OpClone)
Spec == Init /\ [][Next]_vars

\* ---------------------------------------------------------------- invariants of the model
RECURSIVE PathLess(_, _)
PathLess(p, q) == IF p = <<>> \/ q = <<>> THEN FALSE
                  ELSE IF Head(p) < Head(q) THEN TRUE
                  ELSE IF Head(p) > Head(q) THEN FALSE
                  ELSE PathLess(Tail(p), Tail(q))
Flags == {"ack", "nack", "retry", "filter"}
OneFlag == \A s \in Idx(cur) : cur.slots[s].flag \in Flags
\* slots stay in source order, the pieces of a record stay together and in piece order; no piece twice
SlotOrder == \A s \in 1..(Len(cur.slots) - 1) :
               LET x == cur.slots[s]
                   y == cur.slots[s + 1] IN
               x.o < y.o \/ (x.o = y.o /\ PathLess(x.path, y.path))
OriginsOf(sl) == {sl[s].o : s \in 1..Len(sl)}
\* no source record leaves the batch, none enters it
NoOriginLost == OriginsOf(cur.slots) = (IF mode = "sub" THEN OriginsOf(SubSeq(par.slots, win[1] + 1, win[2])) ELSE 1..n)
\* the position sits on the first slot of an origin and nowhere else
HeadFirst == \A s \in Idx(cur) : cur.slots[s].pos =>
                 /\ (s = 1 \/ cur.slots[s - 1].o # cur.slots[s].o)
                 /\ \A t \in Idx(cur) : (t # s /\ cur.slots[t].o = cur.slots[s].o) => ~cur.slots[t].pos
RootHeads == mode # "sub" => \A o \in 1..n : \E s \in Idx(cur) : cur.slots[s].o = o /\ cur.slots[s].pos
RunShape == \A s \in Idx(cur) : (~cur.slots[s].run => (cur.slots[s].pos /\ cur.slots[s].path = <<>>))
                             /\ (cur.slots[s].path # <<>> => cur.slots[s].run)
KnownHeads == \A o \in cur.known : \E s \in Idx(cur) : cur.slots[s].o = o /\ cur.slots[s].pos /\ cur.slots[s].run
\* the filter counter never under-counts, and the way the code uses it agrees with the abstract meaning
NFiltered(b) == Cardinality({s \in Idx(b) : b.slots[s].flag = "filter"})
FcCovers == cur.fc >= NFiltered(cur)
CodeActive(b) == IF b.fc = 0 THEN [s \in Idx(b) |-> s] ELSE IF b.fc = Len(b.slots) THEN <<>> ELSE Act(b)
ActiveByCounter == CodeActive(cur) = Act(cur)
HasActiveByCounter == (cur.fc < Len(cur.slots)) = (NAct(cur) > 0)
\* originalBatch: every origin that has its head in the batch exactly once, in order
OriginalOnce == LET og == Original(cur) IN
                /\ \A k \in 1..(Len(og) - 1) : og[k][1] < og[k + 1][1]
                /\ {og[k][1] : k \in 1..Len(og)} = {cur.slots[s].o : s \in {x \in Idx(cur) : cur.slots[x].pos}}
                /\ \A k \in 1..Len(og) : og[k][1] \in cur.known => og[k][2] = <<>>
\* the parent is a value of its own: nothing done to a sub-batch or a clone reaches it
ParentFrozen == [][mode # "root" => par' = par]_vars

\* ---------------------------------------------------------------- conformance cases
SlotView(b) == [s \in Idx(b) |-> <<b.slots[s].o, b.slots[s].path, b.slots[s].flag, b.slots[s].ver, b.slots[s].err,
                                   b.slots[s].pos, b.slots[s].run>>]
ActiveView(b) == LET A == Act(b) IN [a \in 1..Len(A) |-> <<b.slots[A[a]].o, b.slots[A[a]].path, b.slots[A[a]].ver>>]
Case == IF mode = "root"
        THEN [n |-> n, ops |-> script, mode |-> mode,
              slots |-> SlotView(cur), fc |-> cur.fc, tainted |-> cur.tainted,
              active |-> ActiveView(cur), has |-> NAct(cur) > 0, orig |-> Original(cur)]
        ELSE [n |-> n, ops |-> script, mode |-> mode, win |-> win,
              slots |-> SlotView(cur), fc |-> cur.fc, tainted |-> cur.tainted,
              active |-> ActiveView(cur), has |-> NAct(cur) > 0, orig |-> Original(cur),
              pslots |-> SlotView(par), pfc |-> par.fc, ptainted |-> par.tainted]
EmitCase == (Emit /\ Len(script) >= 1) => PrintT("CASE " \o ToJson(Case))
=============================================================================
