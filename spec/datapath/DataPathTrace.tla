--------------------------- MODULE DataPathTrace ---------------------------
(* Trace validation of real runs of the conduit engines (v1 and v2) against the Layer-A data-path
   vocabulary (DataPathOps).  The trace is an ndjson file recorded by the conformance harness: one
   line per externally observable event, many scenarios concatenated, each starting with a Reset.

   Every recording action is TOTAL: it consumes the next line and updates the abstract state; a
   property that the line breaks is recorded in `viol` (evaluated by TLC after every single
   event - which is what makes one run count for every prefix / every crash instant of that run).
   At the next Reset the violations of the finished scenario are printed as one JSON line
   ("VIOLS ...") that tools/vlib.py turns into KNOWN-FINDING / VIOLATION verdicts.  TLC itself
   stops only for harness errors (WellFormed) or a line no action accepts (TraceAccepted).      *)
EXTENDS DataPathOps, Json, TLC, Integers

CONSTANT TraceFile
Trace == ndJsonDeserialize(TraceFile)

VARIABLES l, st, viol
vars == <<l, st, viol>>

Ev == Trace[l]
IsEvent(k) == l <= Len(Trace) /\ Ev.ev = k /\ l' = l + 1

Known == {"Reset", "Emit", "EmitLost", "ReconfCall", "ReconfRet", "Proc", "Write", "Confirm", "Reject", "DlqWrite", "DlqConfirm", "DlqReject",
          "SrcAck", "Durable", "Open", "Teardown", "Restore", "Call", "Ret", "End", "Hang", "Panic",
          "Fault", "HarnessError", "ChildTimeout"}

Empty == [scen |-> "", engine |-> "", srcs |-> {}, dsts |-> {}, feats |-> {},
          emitted |-> <<>>, pend |-> <<>>, wr |-> <<>>, acked |-> <<>>, stored |-> <<>>,
          dlqW |-> <<>>, dlqP |-> {}, dlqDone |-> {}, dlqFail |-> {}, rej |-> {},
          opens |-> <<>>, tears |-> <<>>, crashed |-> FALSE, bad |-> FALSE, ended |-> FALSE,
          stopRet |-> FALSE, status |-> 0, win |-> 0, thr |-> 0,
          \* C13: live reconfiguration. gens[p][o]: generations of processor p that handled origin o;
          \* hi[p]: highest generation p has used so far (in processing order); asked / applied / failed:
          \* generations requested, reported as applied, reported as failed; floor[o]: the highest
          \* generation reported applied before origin o was emitted
          gens |-> <<>>, hi |-> <<>>, asked |-> {}, applied |-> {}, failedGen |-> {}, floor |-> <<>>,
          \* rank[<<p, g>>]: position of generation g in the order in which p's configurations were opened;
          \* curRank[p]: rank of the configuration opened last (the one in force once its open succeeded)
          rank |-> <<>>, curRank |-> <<>>,
          popens |-> <<>>,       \* processor -> number of successful opens so far
          callOpens |-> <<>>]    \* reconfigure request -> popens of its processor when the request was made

Init == l = 1 /\ st = Empty /\ viol = {}

\* what is rendered as a string: the records of one scenario form a set, and TLC cannot compare values of different types
V(inv, what) == [inv |-> inv, at |-> Ev.n, scen |-> st.scen, what |-> ToString(what)]
Add(cond, inv, what) == IF cond THEN {} ELSE {V(inv, what)}

IsSrc(s) == s \in st.srcs
IsDst(d) == d \in st.dsts
Piece == <<Ev.src, Ev.idx, Ev.path>>
Org == <<Ev.src, Ev.idx>>

Rng(f) == {f[x] : x \in DOMAIN f}
GetF(f, k, dflt) == IF k \in DOMAIN f THEN f[k] ELSE dflt
PutF(f, k, v) == IF k \in DOMAIN f THEN [f EXCEPT ![k] = v] ELSE f @@ (k :> v)
MaxOf(S) == IF S = {} THEN 0 ELSE CHOOSE x \in S : \A y \in S : y <= x

(* C07: the nack window.  Outcomes of source s before index i, in read order (TRUE = dead-lettered);
   both engines hand outcomes to the window in read order (v1: one window per pipeline, so this is
   only well defined for single-source pipelines; v2: one window per source). *)
LastN(q, k) == IF Len(q) <= k THEN q ELSE SubSeq(q, Len(q) - k + 1, Len(q))
CountNack(q) == Cardinality({k \in DOMAIN q : q[k]})
Tolerated(h) == st.win = 0 \/ CountNack(LastN(Append(h, TRUE), st.win)) <= st.thr
OutcomesBefore(s, i) ==
  LET before == SelectSeq(st.emitted[s], LAMBDA j : j < i) IN
  [k \in DOMAIN before |-> <<s, before[k]>> \in Rng(st.dlqW)]
WindowWellDefined == st.engine = "v2" \/ Cardinality(st.srcs) = 1

(* ---------------------------------------------------------------------------------------- *)
Reset ==
  /\ IsEvent("Reset")
  /\ (viol = {} \/ PrintT("VIOLS " \o ToJson(viol)))
  /\ viol' = {}
  /\ LET S == ToSet(Ev.srcs)  D == ToSet(Ev.dsts) IN
     st' = [Empty EXCEPT !.scen = Ev.scenario, !.engine = Ev.engine, !.srcs = S, !.dsts = D,
              !.feats = ToSet(Ev.features),
              !.win = IF "window" \in DOMAIN Ev THEN Ev.window ELSE 0,
              !.thr = IF "threshold" \in DOMAIN Ev THEN Ev.threshold ELSE 0,
              !.emitted = [s \in S |-> <<>>], !.acked = [s \in S |-> <<>>],
              !.stored = [s \in S |-> 0],
              !.pend = [d \in D |-> {}], !.wr = [d \in D |-> <<>>],
              !.opens = [c \in {} |-> 0], !.tears = [c \in {} |-> 0]]

Emit ==
  /\ IsEvent("Emit")
  /\ IF IsSrc(Ev.src)
       THEN st' = [st EXCEPT !.emitted[Ev.src] = Append(@, Ev.idx),
                             !.pend = [d \in st.dsts |-> st.pend[d] \cup {<<Ev.src, Ev.idx, <<>>>>}],
                             !.floor = PutF(@, <<Ev.src, Ev.idx>>, st.curRank)]
       ELSE st' = [st EXCEPT !.bad = TRUE]
  /\ UNCHANGED viol

\* a batch that was logged as emitted but never reached the engine (its stream was closed first)
EmitLost ==
  /\ IsEvent("EmitLost")
  /\ LET lost == ToSet(Ev.idxs) IN
     st' = IF IsSrc(Ev.src)
             THEN [st EXCEPT !.emitted[Ev.src] = SelectSeq(@, LAMBDA i : i \notin lost),
                             !.pend = [d \in st.dsts |-> {x \in st.pend[d] : ~(x[1] = Ev.src /\ x[2] \in lost)}]]
             ELSE st
  /\ UNCHANGED viol

Proc ==
  /\ IsEvent("Proc")
  /\ IF Ev.tagok /\ IsSrc(Ev.src)
       THEN LET key == <<Ev.proc, Org>>
                seen == GetF(st.gens, key, {})
                g == Ev.geni IN
            /\ st' = [st EXCEPT !.pend = ApplyProc(st, Ev.scope, Piece, Ev.kind, Ev.outs),
                                !.rej = IF Ev.kind = "error" THEN @ \cup {Piece} ELSE @,
                                !.gens = PutF(@, key, seen \cup {g}),
                                !.hi = LET rk == GetF(st.rank, <<Ev.proc, g>>, 0) IN
                                       PutF(@, Ev.proc, IF rk > GetF(st.hi, Ev.proc, 0) THEN rk ELSE GetF(st.hi, Ev.proc, 0))]
            /\ viol' = viol
                 \* C13: every record is processed by exactly one configuration ...
                 \cup Add(seen \subseteq {g}, "OneConfigPerRecord", <<Ev.proc, Ev.tag, seen, g>>)
                 \* ... the old one before the switch, the new one after it (never back): configurations are
                 \* ordered by the order in which they were opened
                 \cup (IF "reconf" \in st.feats
                        THEN LET rk == GetF(st.rank, <<Ev.proc, g>>, 0) IN
                             Add(rk >= GetF(st.hi, Ev.proc, 0), "SwitchAtBoundary", <<Ev.proc, Ev.tag, g>>)
                             \* only configurations somebody asked for, never one whose open failed
                             \cup Add(g = 1 \/ g \in st.asked, "OnlyRequestedConfig", <<Ev.proc, g>>)
                             \cup Add(rk > 0, "FailedOpenKeepsOld", <<Ev.proc, g, "never opened">>)
                             \* a configuration whose request was answered with an error never handles a record
                             \* (requests made one after the other: each result is about that request's own configuration)
                             \cup (IF "reconf-sequential" \in st.feats
                                     THEN Add(g \notin st.failedGen, "FailedOpenKeepsOld", <<Ev.proc, g, "its request had failed">>)
                                     ELSE {})
                             \* a switch that happened before the record was read is in force for it
                             \cup Add(Len(Ev.path) > 0 \/ rk >= GetF(GetF(st.floor, Org, <<>>), Ev.proc, 0), "AppliedIsInForce",
                                      <<Ev.proc, Ev.tag, g>>)
                        ELSE {})
       ELSE UNCHANGED <<st, viol>>

ReconfCall ==
  /\ IsEvent("ReconfCall")
  /\ st' = [st EXCEPT !.asked = @ \cup {Ev.geni}, !.failedGen = @ \ {Ev.geni},
                      !.callOpens = PutF(@, Ev.rid, GetF(st.popens, Ev.proc, 0))]
  /\ UNCHANGED viol

\* the caller itself gave up (its own context ended): no statement about the outcome.  An error that merely LOOKS like
\* that (a deadline the engine put on the call on its own) while the caller had set none is a failure like any other.
GaveUp == /\ "sentinel" \in DOMAIN Ev.err /\ Ev.err.sentinel \in {"context.Canceled", "context.DeadlineExceeded"}
          /\ ("caller_deadline" \notin DOMAIN Ev \/ Ev.caller_deadline)

ReconfRet ==
  /\ IsEvent("ReconfRet")
  /\ IF Ev.err.nil
       THEN /\ st' = [st EXCEPT !.applied = @ \cup {Ev.geni}]
            \* every caller gets the result of ITS OWN request: "applied" means that configuration was opened
            \* (the node opens whatever configuration is stored when it takes the request up - with overlapping
            \* requests possibly a later one - so: some new processor was opened since this request was made)
            /\ viol' = viol \cup Add(GetF(st.popens, Ev.proc, 0) > GetF(st.callOpens, Ev.rid, 0), "AppliedIsInForce",
                                     <<Ev.proc, Ev.geni, "reported applied but no configuration was opened for this request">>)
       ELSE /\ st' = [st EXCEPT !.failedGen = IF GaveUp THEN @ ELSE @ \cup {Ev.geni}]
            \* the caller got an error (not a mere give-up): that configuration never handled a record
            /\ viol' = viol
                 \cup (IF GaveUp THEN {}
                        ELSE Add(\A k \in DOMAIN st.gens : Ev.geni \notin st.gens[k], "FailedOpenKeepsOld", <<Ev.proc, Ev.geni>>))

Write ==
  /\ IsEvent("Write")
  /\ IF Ev.tagok /\ IsDst(Ev.conn) /\ IsSrc(Ev.src)
       THEN /\ st' = [st EXCEPT !.wr[Ev.conn] = Append(@, Piece)]
            /\ viol' = viol
                 \cup Add(~(Piece \in Rng(st.wr[Ev.conn])), "NoDupWrite", Ev.tag)
                 \cup Add(Piece \in Rng(st.wr[Ev.conn]) \/ WriteInOrder(st, Ev.conn, Piece), "DestOrder", Ev.tag)
                 \cup Add(Piece \in st.pend[Ev.conn], "WriteDerived", Ev.tag)
       ELSE UNCHANGED <<st, viol>>

Confirm ==
  /\ IsEvent("Confirm")
  /\ IF Ev.tagok /\ IsDst(Ev.conn)
       THEN st' = [st EXCEPT !.pend[Ev.conn] = @ \ {Piece}]
       ELSE UNCHANGED st
  /\ UNCHANGED viol

Reject ==
  /\ IsEvent("Reject")
  /\ st' = [st EXCEPT !.rej = IF Ev.tagok THEN @ \cup {Piece} ELSE @]
  /\ UNCHANGED viol

DlqWrite ==
  /\ IsEvent("DlqWrite")
  /\ IF Ev.tagok /\ IsSrc(Ev.src)
       THEN /\ st' = [st EXCEPT !.dlqW = Append(@, Org), !.dlqP = @ \cup {Org}]
            /\ viol' = viol
                 \* exactly once: no second write while one is outstanding or after one was confirmed
                 \* (re-trying a write the DLQ refused is not a second copy)
                 \cup Add(~(Org \in st.dlqDone \cup st.dlqP), "DlqOnce", Ev.tag)
                 \cup Add(\A k \in 1..Len(st.dlqW) :
                            st.dlqW[k][1] = Ev.src => st.dlqW[k][2] <= Ev.idx, "DlqSourceOrder", Ev.tag)
                 \cup Add(~(Ev.idx \in Rng(st.acked[Ev.src])), "DlqBeforeAck", Ev.tag)
                 \* C08: a failed piece dead-letters the ORIGINAL record (with its original position)
                 \cup Add(Ev.path = <<>>, "DlqOriginal", Ev.tag)
                 \* C07 / C08 (families in which every cause of a failure is an observable input - a destination's
                 \* rejection, a processor's error result, or a condition that cannot be evaluated for a record named in
                 \* the scenario): a record is dead-lettered only for ITS OWN failure, never for another record's
                 \cup (IF "dlq-justified" \in st.feats
                        THEN Add((\E x \in st.rej : Origin(x) = Org) \/ ("conderr:" \o Ev.tag) \in st.feats, "DlqJustified", <<Ev.tag, Ev.err>>)
                        ELSE {})
                 \* the engine dead-letters only what the window policy tolerates
                 \cup (IF WindowWellDefined /\ ~(Org \in Rng(st.dlqW))
                        THEN Add(Tolerated(OutcomesBefore(Ev.src, Ev.idx)), "DlqDecision", Ev.tag)
                        ELSE {})
       ELSE /\ st' = [st EXCEPT !.bad = TRUE]
            /\ viol' = viol \cup {V("DlqCarriesOriginal", Ev.pos)}

DlqConfirm ==
  /\ IsEvent("DlqConfirm")
  /\ st' = IF Ev.tagok THEN [st EXCEPT !.dlqDone = @ \cup {Org}, !.dlqP = @ \ {Org}] ELSE st
  /\ UNCHANGED viol

DlqReject ==
  /\ IsEvent("DlqReject")
  /\ st' = IF Ev.tagok THEN [st EXCEPT !.dlqFail = @ \cup {Org}, !.dlqP = @ \ {Org}] ELSE st
  /\ UNCHANGED viol

SrcAck ==
  /\ IsEvent("SrcAck")
  /\ IF IsSrc(Ev.src)
       THEN /\ st' = [st EXCEPT !.acked[Ev.src] = Append(@, Ev.idx)]
            /\ viol' = viol
                 \cup Add(CanAck(st, Org), "NoEarlyAck", Ev.pos)
                 \cup Add(NextInOrder(st, Ev.src, Ev.idx), "AckPrefix", Ev.pos)
                 \cup Add(st.stored[Ev.src] >= Ev.idx, "AckAfterDurable", Ev.pos)
                 \* C08: only positions the source itself produced are ever acknowledged
                 \cup Add(Ev.idx > 0, "PositionImmutable", Ev.pos)
       ELSE /\ st' = [st EXCEPT !.bad = TRUE]
            /\ UNCHANGED viol

Durable ==
  /\ IsEvent("Durable")
  /\ IF Ev.class = "connector" /\ IsSrc(Ev.id) /\ ~("del" \in DOMAIN Ev)
       THEN /\ st' = [st EXCEPT !.stored[Ev.id] = Ev.idx]
            /\ viol' = viol
                 \cup Add(Ev.idx >= st.stored[Ev.id], "StoreMonotone", Ev.pos)
                 \cup Add(HandledUpTo(st, Ev.id, Ev.idx), "HandledBeforeStored", Ev.pos)
     ELSE IF Ev.class = "pipeline" /\ ~("del" \in DOMAIN Ev)
       THEN st' = [st EXCEPT !.status = Ev.status] /\ UNCHANGED viol
     ELSE UNCHANGED <<st, viol>>

Bump(f, c) == IF c \in DOMAIN f THEN [f EXCEPT ![c] = @ + 1] ELSE f @@ (c :> 1)

\* a source (re)opens: a new run of that source begins
Open ==
  /\ IsEvent("Open")
  /\ IF ~Ev.ok THEN UNCHANGED <<st, viol>>
     ELSE IF Ev.kind = "source" /\ IsSrc(Ev.conn)
       THEN LET s == Ev.conn IN
            /\ viol' = viol
                 \cup Add(HandledUpTo(st, s, Ev.idx), "OpenNotPastUnhandled", Ev.pos)
                 \cup Add(~st.crashed \/ Ev.idx = st.stored[s], "OpenAtStored", Ev.pos)
                 \cup Add(Ev.idx >= 0, "OpenAtStored", Ev.pos)
            /\ st' = [st EXCEPT !.opens = Bump(@, Ev.key),
                        !.emitted[s] = <<>>, !.acked[s] = <<>>,
                        !.pend = [d \in st.dsts |-> {x \in st.pend[d] : x[1] # s}],
                        !.wr = [d \in st.dsts |-> SelectSeq(st.wr[d], LAMBDA x : x[1] # s)],
                        !.dlqW = SelectSeq(st.dlqW, LAMBDA o : o[1] # s),
                        !.dlqP = {o \in @ : o[1] # s},
                        !.dlqDone = {o \in @ : o[1] # s},
                        !.dlqFail = {o \in @ : o[1] # s},
                        !.rej = {x \in @ : x[1] # s}]
     ELSE IF Ev.kind = "processor"
       THEN LET g == Ev.geni  r == GetF(st.curRank, Ev.conn, 0) + 1 IN
            st' = [st EXCEPT !.opens = Bump(@, Ev.key),
                             !.popens = PutF(@, Ev.conn, GetF(@, Ev.conn, 0) + 1),
                             \* every successful open gets the next rank - also the re-open of an older configuration
                             \* (the rollback of a failed multi-processor apply, a restart): "never back" is about the
                             \* order of opens, not about generation numbers
                             !.rank = PutF(@, <<Ev.conn, g>>, r),
                             !.curRank = PutF(@, Ev.conn, r)]
            /\ UNCHANGED viol
     ELSE st' = [st EXCEPT !.opens = Bump(@, Ev.key)] /\ UNCHANGED viol

Teardown ==
  /\ IsEvent("Teardown")
  \* a plugin object that was never opened may be torn down (the engine probes processor plugins
  \* that way); what must never happen is tearing down an opened object more often than it was opened
  /\ st' = IF Ev.key \in DOMAIN st.opens THEN [st EXCEPT !.tears = Bump(@, Ev.key)] ELSE st
  /\ viol' = viol
       \cup Add(Ev.key \notin DOMAIN st.opens \/
                (IF Ev.key \in DOMAIN st.tears THEN st.tears[Ev.key] ELSE 0) < st.opens[Ev.key],
                "TeardownMatchesOpen", Ev.key)
       \* C06: on a healthy pipeline every record that reached a destination or the DLQ was
       \* acknowledged to its source before that source is torn down
       \cup (IF Ev.kind = "source" /\ IsSrc(Ev.conn) /\ "healthy" \in st.feats
               THEN Add(\A d \in st.dsts : \A k \in 1..Len(st.wr[d]) :
                          st.wr[d][k][1] = Ev.conn => st.wr[d][k][2] \in Rng(st.acked[Ev.conn]),
                        "AckedBeforeTeardown", Ev.conn)
                    \cup Add(\A k \in 1..Len(st.dlqW) :
                          st.dlqW[k][1] = Ev.conn => st.dlqW[k][2] \in Rng(st.acked[Ev.conn]),
                        "AckedBeforeTeardown", Ev.conn)
               ELSE {})

\* the process "crashed": the durable state is replaced by the snapshot taken at the crash instant
Restore ==
  /\ IsEvent("Restore")
  \* everything in flight is gone with the process; what was handled up to the crash instant was
  \* judged at that instant (HandledBeforeStored at the commit that produced this snapshot)
  /\ st' = [st EXCEPT !.crashed = TRUE,
              !.stored = [s \in st.srcs |-> IF s \in DOMAIN Ev.stored THEN Ev.stored[s] ELSE 0],
              !.emitted = [s \in st.srcs |-> <<>>], !.acked = [s \in st.srcs |-> <<>>],
              !.pend = [d \in st.dsts |-> {}], !.wr = [d \in st.dsts |-> <<>>],
              !.dlqW = <<>>, !.dlqP = {}, !.dlqDone = {}, !.dlqFail = {}, !.rej = {},
              !.opens = [c \in {} |-> 0], !.tears = [c \in {} |-> 0]]
  /\ UNCHANGED viol

Call == IsEvent("Call") /\ UNCHANGED <<st, viol>>

\* C06: when stop-and-wait returns without error on a healthy pipeline everything is settled
Settled ==
  /\ \A d \in st.dsts : \A k \in 1..Len(st.wr[d]) :
        st.wr[d][k] \notin st.pend[d] \/ Origin(st.wr[d][k]) \in st.dlqDone
  /\ st.dlqP = {}
StoredIsLastAcked ==
  \A s \in st.srcs : Len(st.acked[s]) > 0 => st.stored[s] = st.acked[s][Len(st.acked[s])]
TornDown ==
  \A c \in DOMAIN st.opens : c \in DOMAIN st.tears /\ st.tears[c] = st.opens[c]

Ret ==
  /\ IsEvent("Ret")
  /\ IF Ev.call = "StopAndWait" /\ Ev.err.nil /\ "healthy" \in st.feats
       THEN /\ viol' = viol \cup Add(Settled, "NoHalfHandled", "at StopAndWait return")
                            \cup Add(StoredIsLastAcked, "StoredIsLastAcked", "at StopAndWait return")
                            \cup Add(TornDown, "TornDownOnce", "at StopAndWait return")
            /\ st' = [st EXCEPT !.stopRet = TRUE]
       ELSE UNCHANGED <<st, viol>>

\* rejected origins of source s that were neither dead-lettered nor (therefore) allowed to be acked
Refused(s) == {x[2] : x \in {y \in st.rej : y[1] = s /\ ~(Origin(y) \in Rng(st.dlqW))}}
MinOf(S) == CHOOSE x \in S : \A y \in S : x <= y

\* C08: when the run ended without a failure every record read has exactly one outcome, decided by
\* its own results only: rejected/errored => dead-lettered (once, confirmed) and acknowledged;
\* otherwise never dead-lettered, nothing owed by any destination, acknowledged
Rejected(o) == \E x \in st.rej : Origin(x) = o
OneOutcome(o) ==
  /\ o[2] \in Rng(st.acked[o[1]])
  /\ IF Rejected(o) THEN o \in st.dlqDone
     ELSE ~(o \in Rng(st.dlqW)) /\ Owing(st, o) = {}

End ==
  /\ IsEvent("End")
  /\ st' = [st EXCEPT !.ended = TRUE]
  /\ viol' = viol
       \cup (IF Ev.status = "UserStopped" /\ Ev.error = "" /\ "accounting" \in st.feats
               THEN UNION {UNION {Add(OneOutcome(<<s, st.emitted[s][k]>>), "ExactlyOne", <<s, st.emitted[s][k]>>)
                                  : k \in 1..Len(st.emitted[s])} : s \in st.srcs}
               ELSE {})
       \* C07 (policy family: one source, one destination, no other fault): the first rejected
       \* record that was not dead-lettered must be one the policy refuses, it stays unacknowledged
       \* and the pipeline did not end as healthy-stopped
       \cup (IF "dlq-policy" \in st.feats
               THEN UNION {IF Refused(s) = {} THEN {}
                           ELSE LET r == MinOf(Refused(s)) IN
                                Add(~Tolerated(OutcomesBefore(s, r)), "DlqDecision", <<"refused although tolerated", s, r>>)
                                \cup Add(~(r \in Rng(st.acked[s])), "DlqFailNoAck", <<"refused record acked", s, r>>)
                                \cup Add(Ev.status = "Degraded", "DlqStops", <<"pipeline not degraded", Ev.status>>)
                           : s \in st.srcs}
               ELSE {})
       \* C07: "otherwise the pipeline stops with an error": nobody stopped this pipeline, and a dead-letter write
       \* was rejected or never confirmed - the run must have ended with an error
       \cup (IF "dlq-must-stop" \in st.feats /\ (st.dlqFail # {} \/ st.dlqP # {})
               THEN Add(Ev.status = "Degraded", "DlqStops", <<"a dead-letter write failed but the pipeline did not stop with an error", Ev.status>>)
               ELSE {})
       \cup (IF "healthy" \in st.feats /\ "graceful" \in st.feats
               THEN Add(Settled, "NoHalfHandled", "at end")
                    \cup Add(StoredIsLastAcked, "StoredIsLastAcked", "at end")
                    \cup Add(TornDown, "TornDownOnce", "at end")
                    \* ... also a record that reached a destination only AFTER its source was torn down (the rule at the
                    \* Teardown event cannot see it) was never acknowledged before that teardown
                    \cup UNION {Add(\A k \in 1..Len(st.wr[d]) : st.wr[d][k][2] \in Rng(st.acked[st.wr[d][k][1]]),
                                    "AckedBeforeTeardown", <<"written but never acknowledged", d>>) : d \in st.dsts}
               ELSE {})

Hang  == IsEvent("Hang")  /\ viol' = viol \cup {V("NoHang", Ev.call)} /\ UNCHANGED st
Panic == IsEvent("Panic") /\ viol' = viol \cup {V("NoPanic", Ev.stderr)} /\ UNCHANGED st
Fault == IsEvent("Fault") /\ UNCHANGED <<st, viol>>
HarnessError == (IsEvent("HarnessError") \/ IsEvent("ChildTimeout")) /\ st' = [st EXCEPT !.bad = TRUE] /\ UNCHANGED viol
Other == l <= Len(Trace) /\ Ev.ev \notin Known /\ l' = l + 1 /\ UNCHANGED <<st, viol>>

Next == \/ Reset \/ Emit \/ EmitLost \/ ReconfCall \/ ReconfRet \/ Proc \/ Write \/ Confirm \/ Reject \/ DlqWrite \/ DlqConfirm \/ DlqReject
        \/ SrcAck \/ Durable \/ Open \/ Teardown \/ Restore \/ Call \/ Ret \/ End \/ Hang \/ Panic
        \/ Fault \/ HarnessError \/ Other

Spec == Init /\ [][Next]_vars

\* a harness / vocabulary error, never a property violation: TLC stops, the check exits 2
WellFormed == ~st.bad

TraceAccepted == TLCGet("stats").diameter - 1 = Len(Trace)
=============================================================================
