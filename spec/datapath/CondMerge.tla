----------------------------- MODULE CondMerge -----------------------------
(* C09, second sentence: "For a processor with a condition, records that do not match pass through
   unchanged in their original place and every result stays aligned with the record it belongs to."
   One-shot function: n input records, a match mask m (TRUE = the condition holds, the record is
   handed to the plugin), the plugin's output vector o over the kept records (result kinds), and
   a length deviation dev in {-1 (one result short), 0, +1 (one surplus result)}.
   Expected(i) for dev = 0:  ~m[i] -> <<"single", i>> (record i itself, unchanged place)
                              m[i] -> the kept record's own result, aligned
   dev = +1: the documented refusal - one error result, nothing else.
   dev = -1: never a panic; whatever is returned must be aligned (checked by Aligned below on the
             observed result).  TLC enumerates every (n, m, o, dev) and prints the expectation.   *)
EXTENDS Naturals, Sequences, FiniteSets, TLC, Json

CONSTANTS MaxN, Kinds

(* ce = the first record whose condition cannot be evaluated (0 = none): the engine evaluates the condition
   record by record and stops there, so only records before ce are classified (kept / passed through).
     dev = 0: every classified record keeps its place and its own result, then ONE error result follows
              for record ce (the caller rejects that record and retries what comes after it);
     dev = 1 (the plugin answers one result short): the result ends where the plugin stopped - exactly
              the records before the last kept one, aligned - and carries NO error: the condition error
              belongs to an even later record, which is simply not reached in this call;
     dev = 2 (one surplus result): the documented refusal - one error result, nothing else.           *)
VARIABLES n, m, o, dev, ce
vars == <<n, m, o, dev, ce>>

Evald(nn, c) == IF c = 0 THEN 1..nn ELSE 1..(c - 1)
KeptOf(nn, mm, c) == {i \in Evald(nn, c) : mm[i]}
Init == /\ n \in 1..MaxN
        /\ m \in [1..n -> BOOLEAN]
        /\ ce \in 0..n
        /\ o \in [1..Cardinality(KeptOf(n, m, ce)) -> Kinds]
        /\ dev \in {0, 1, 2}     \* 0 = exact, 1 = one short, 2 = one surplus
        /\ (dev # 0 => Cardinality(KeptOf(n, m, ce)) > 0)
Next == UNCHANGED vars
Spec == Init /\ [][Next]_vars

Kept == KeptOf(n, m, ce)
Rank(i) == Cardinality({j \in 1..i : j \in Kept})
Own(i) == IF i \in Kept THEN <<o[Rank(i)], i>> ELSE <<"single", i>>
LastKept == CHOOSE i \in Kept : \A j \in Kept : j <= i
Upto(k) == [i \in 1..k |-> Own(i)]
Expected ==
  CASE dev = 2 -> << <<"error", 0>> >>
    [] dev = 1 -> Upto(LastKept - 1)
    [] OTHER   -> IF ce = 0 THEN Upto(n) ELSE Append(Upto(ce - 1), <<"error", 0>>)

Case == [n |-> n, mask |-> m, out |-> o, dev |-> dev, ce |-> ce, expected |-> Expected]
EmitCase == PrintT("CASE " \o ToJson(Case))
=============================================================================
