----------------------------- MODULE CondMerge -----------------------------
(* C09, second sentence: "For a processor with a condition, records that do not match pass through
   unchanged in their original place and every result stays aligned with the record it belongs to."
   One-shot function: n input records, a match mask m (TRUE = the condition holds, the record is
   handed to the plugin), the plugin's output vector o over the kept records (result kinds), and
   a length deviation dev in {-1 (one result short), 0, +1 (one surplus result)}.
   Expected(i) for dev = 0:  ~m[i] -> <<"single", i>> (record i itself, unchanged place)
                              m[i] -> the kept record's own result, aligned
   dev = +1: the documented refusal - one error result, nothing else.
   dev = -1: never a panic; whatever is returned must be aligned (checked by Aligned below on the
             observed result).  TLC enumerates every (n, m, o, dev) and prints the expectation.   *)
EXTENDS Naturals, Sequences, FiniteSets, TLC, Json

CONSTANTS MaxN, Kinds

VARIABLES n, m, o, dev
vars == <<n, m, o, dev>>

KeptOf(nn, mm) == {i \in 1..nn : mm[i]}
Init == /\ n \in 1..MaxN
        /\ m \in [1..n -> BOOLEAN]
        /\ o \in [1..Cardinality(KeptOf(n, m)) -> Kinds]
        /\ dev \in {0, 1, 2}     \* 0 = exact, 1 = one short, 2 = one surplus
        /\ (dev = 1 => Cardinality(KeptOf(n, m)) > 0)
Next == UNCHANGED vars
Spec == Init /\ [][Next]_vars

Rank(i) == Cardinality({j \in 1..i : m[j]})
Expected ==
  IF dev = 2 /\ KeptOf(n, m) # {} THEN << <<"error", 0>> >>
  ELSE [i \in 1..n |-> IF m[i] THEN <<o[Rank(i)], i>> ELSE <<"single", i>>]

Case == [n |-> n, mask |-> m, out |-> o, dev |-> dev, expected |-> Expected]
EmitCase == PrintT("CASE " \o ToJson(Case))
=============================================================================
