-------------------------- MODULE DLQWindowTrace --------------------------
(* Trace validation of the two REAL DLQ nack windows (driven through their exported API by
   harness/drivers/dlqwin) against the property's sliding-window policy.  For every enumerated
   outcome sequence, after every single outcome:
     V1Decision / V2Decision   the engine tolerated the rejection iff the policy does
     Parity                    both engines took the same decision (incl. fatality of a refusal)
   and at the end of each sequence
     DlqExactly                the records that reached the DLQ are exactly the tolerated
                               rejections, once each, in order                                *)
EXTENDS Naturals, Sequences, FiniteSets, Json, TLC

CONSTANT TraceFile
Trace == ndJsonDeserialize(TraceFile)

VARIABLES l, st, viol
vars == <<l, st, viol>>
Ev == Trace[l]
IsEvent(k) == l <= Len(Trace) /\ Ev.ev = k /\ l' = l + 1

LastN(s, k) == IF Len(s) <= k THEN s ELSE SubSeq(s, Len(s) - k + 1, Len(s))
CountNack(s) == Cardinality({i \in DOMAIN s : s[i]})
Tolerated(h, N, T) == N = 0 \/ CountNack(LastN(Append(h, TRUE), N)) <= T

Empty == [scen |-> "", n |-> 0, t |-> 0, code |-> 0, hist |-> <<>>, frozen |-> FALSE, acc |-> <<>>, bad |-> FALSE]
Init == l = 1 /\ st = Empty /\ viol = {}
\* what is rendered as a string: the records of one scenario form a set, and TLC cannot compare values of different types
V(inv, what) == [inv |-> inv, at |-> Ev.n, scen |-> st.scen, what |-> ToString(what)]
Add(cond, inv, what) == IF cond THEN {} ELSE {V(inv, what)}

Reset ==
  /\ IsEvent("Reset")
  /\ (viol = {} \/ PrintT("VIOLS " \o ToJson(viol)))
  /\ viol' = {}
  /\ st' = [Empty EXCEPT !.scen = Ev.scenario]

SeqStart ==
  /\ IsEvent("SeqStart")
  /\ st' = [st EXCEPT !.n = Ev.wn, !.t = Ev.wt, !.code = Ev.code, !.hist = <<>>, !.frozen = FALSE, !.acc = <<>>]
  /\ UNCHANGED viol

Out ==
  /\ IsEvent("Out")
  /\ IF ~Ev.nack
       THEN /\ st' = [st EXCEPT !.hist = IF st.frozen THEN @ ELSE LastN(Append(@, FALSE), st.n)]
            /\ UNCHANGED viol
       ELSE LET ok == ~st.frozen /\ Tolerated(st.hist, st.n, st.t) IN
            /\ st' = [st EXCEPT !.hist = IF st.frozen THEN @ ELSE LastN(Append(@, TRUE), st.n),
                                !.frozen = st.frozen \/ ~ok,
                                !.acc = IF ok THEN Append(@, Ev.i) ELSE @]
            /\ viol' = viol
                 \cup Add(Ev.ok1 = ok, "V1Decision", <<st.n, st.t, st.code, Ev.i>>)
                 \cup Add(Ev.ok2 = ok, "V2Decision", <<st.n, st.t, st.code, Ev.i>>)
                 \cup Add(Ev.ok1 = Ev.ok2 /\ Ev.fatal1 = Ev.fatal2, "Parity", <<st.n, st.t, st.code, Ev.i>>)

SeqEnd ==
  /\ IsEvent("SeqEnd")
  /\ viol' = viol
       \cup Add(Ev.w1 = st.acc, "DlqExactly", <<"v1", st.n, st.t, st.code>>)
       \cup Add(Ev.w2 = st.acc, "DlqExactly", <<"v2", st.n, st.t, st.code>>)
       \cup Add(Ev.contract = "", "PartialAcceptanceReported", Ev.contract)
  /\ UNCHANGED st

HarnessError == IsEvent("HarnessError") /\ st' = [st EXCEPT !.bad = TRUE] /\ UNCHANGED viol
Next == Reset \/ SeqStart \/ Out \/ SeqEnd \/ HarnessError
Spec == Init /\ [][Next]_vars
WellFormed == ~st.bad
TraceAccepted == TLCGet("stats").diameter - 1 = Len(Trace)
=============================================================================
