---------------------------- MODULE DataPathOps ----------------------------
(* Layer A vocabulary of the data path: the abstract state the properties C01-C09 talk about and
   the operators that state them.  No internal identifier of ConduitIO/conduit appears here.

   A *piece* is <<src, idx, path>>: the record with index idx of source src, or - when path is
   not empty - one of the records a processor split it into (path = the split indices along the
   processor chain).  Its *origin* is <<src, idx>>.

   The state is one record st with fields
     srcs, dsts    : the pipeline's source / destination connector ids
     emitted[s]    : indices handed over by source s in its current run, in order
     pend[d]       : pieces derived from emitted records that destination d has not confirmed
                     (and that no processor on d's path filtered out)
     wr[d]         : pieces written to d in the current run, in order
     dlqW          : origins written to the dead-letter queue in the current run, in order
     dlqP          : origins written to the DLQ and not yet answered
     dlqDone       : origins whose DLQ write was confirmed
     acked[s]      : indices acknowledged to source s in its current run, in order
     stored[s]     : index of the position durably stored for s (0 = none)
     rej           : pieces a destination rejected / a processor errored (per origin bookkeeping)
*)
EXTENDS Naturals, Sequences, FiniteSets, SequencesExt

Origin(x) == <<x[1], x[2]>>

RECURSIVE PathLess(_, _)
PathLess(p, q) ==
  IF p = <<>> THEN q # <<>>
  ELSE IF q = <<>> THEN FALSE
  ELSE IF p[1] # q[1] THEN p[1] < q[1]
  ELSE PathLess(Tail(p), Tail(q))

\* strict "read order" on pieces of one source
PieceLess(x, y) == x[2] < y[2] \/ (x[2] = y[2] /\ PathLess(x[3], y[3]))

\* destinations that still owe a confirmation for a piece of origin o
Owing(st, o) == {d \in st.dsts : \E x \in st.pend[d] : Origin(x) = o}

\* C01: the source may be told that origin o is acknowledged
CanAck(st, o) == o \in st.dlqDone \/ Owing(st, o) = {}

\* C04: acknowledging idx next keeps acked a prefix of emitted
NextInOrder(st, s, i) ==
  /\ Len(st.acked[s]) < Len(st.emitted[s])
  /\ st.emitted[s][Len(st.acked[s]) + 1] = i

\* C05: writing piece x to d keeps d's per-source order strictly increasing (no repeats)
WriteInOrder(st, d, x) ==
  \A k \in 1..Len(st.wr[d]) :
    LET y == st.wr[d][k] IN y[1] = x[1] => PieceLess(y, x)

\* C02/C03: every record of s emitted in this run at or before index i is handled
HandledUpTo(st, s, i) ==
  \A k \in 1..Len(st.emitted[s]) :
    st.emitted[s][k] <= i => CanAck(st, <<s, st.emitted[s][k]>>)

\* effect of a processor result on the pending sets (scope = "all" or one destination)
ScopeDsts(st, scope) == IF scope = "all" THEN st.dsts ELSE {scope} \cap st.dsts

Pieces(x, outs) == {<<x[1], x[2], outs[k]>> : k \in 1..Len(outs)}

ApplyProc(st, scope, x, kind, outs) ==
  LET ds == ScopeDsts(st, scope) IN
  IF kind \in {"filter", "multi0"}
    THEN [d \in st.dsts |-> IF d \in ds THEN st.pend[d] \ {x} ELSE st.pend[d]]
  ELSE IF kind \in {"multi1", "multi2", "multi3"}
    THEN [d \in st.dsts |-> IF d \in ds /\ x \in st.pend[d]
                              THEN (st.pend[d] \ {x}) \cup Pieces(x, outs) ELSE st.pend[d]]
  ELSE st.pend
=============================================================================
