----------------------------- MODULE DLQWindow -----------------------------
(* C07, window level.  The abstract nack-tolerance policy as the property words it - "a rejection is
   tolerated only while the rejections among the most recent window-size outcomes, counting it, do
   not exceed the threshold (a window size of zero removes the limit, a threshold of zero tolerates
   none)", refusal is final - and the two ring buffers of the code (pkg/lifecycle/stream/dlq.go:
   one outcome at a time; pkg/lifecycle-poc/funnel/dlq.go: a count at a time with early return),
   transcribed action by action and run in lock step on the same outcome stream.
   TLC checks exhaustively, for every (N, T) and every outcome sequence up to MaxLen (MaxLen = 0: of any
   length - the state space is finite without the step counter):
     V1MatchesPolicy, V2MatchesPolicy  (ring buffer => sliding history)  hence v1 == v2.        *)
EXTENDS Naturals, Sequences, FiniteSets, TLC
CONSTANTS MaxN, MaxLen

VARIABLES N, T,                 \* window size and threshold: chosen in Init, then constant
          hist, frozen,          \* abstract: outcomes so far (TRUE = nack); frozen after the first refusal
          w1, c1, n1,            \* v1 ring: window, cursor, nackCount
          w2, c2, n2,            \* v2 ring
          d1, d2, dA,            \* last decision of v1, v2, the abstract policy ("-" before any nack)
          steps
vars == <<N, T, hist, frozen, w1, c1, n1, w2, c2, n2, d1, d2, dA, steps>>

Size == IF N > 0 /\ T = 0 THEN 1 ELSE N     \* newDLQWindow's size optimisation
LastN(s, k) == IF Len(s) <= k THEN s ELSE SubSeq(s, Len(s) - k + 1, Len(s))
CountNack(s) == Cardinality({i \in DOMAIN s : s[i]})

Tolerated(h) == N = 0 \/ CountNack(LastN(Append(h, TRUE), N)) <= T

SizeOf(n, t) == IF n > 0 /\ t = 0 THEN 1 ELSE n
Init == /\ N \in 0..MaxN /\ T \in 0..MaxN /\ (T < N \/ (N = 0 /\ T = 0))
        /\ hist = <<>> /\ frozen = FALSE
        /\ w1 = [i \in 0..(SizeOf(N, T)-1) |-> FALSE] /\ c1 = 0 /\ n1 = 0
        /\ w2 = [i \in 0..(SizeOf(N, T)-1) |-> FALSE] /\ c2 = 0 /\ n2 = 0
        /\ d1 = "-" /\ d2 = "-" /\ dA = "-" /\ steps = 0

\* one ring-buffer store step (shared shape of both engines): <<window, cursor, nackCount>>
Store(w, c, n, nack) ==
  IF Size = 0 \/ T < n THEN <<w, c, n>>
  ELSE LET cc == (c + 1) % Size IN
       IF w[cc] = nack THEN <<w, cc, n>>
       ELSE <<[w EXCEPT ![cc] = nack], cc, IF nack THEN n + 1 ELSE n - 1>>

B(b) == IF b THEN "ok" ELSE "refused"

\* MaxLen = 0: no bound on the length of the outcome sequence.  Every other variable is bounded by N (the
\* history keeps its last N outcomes, the rings have Size cells), so the reachable state space is finite and
\* TLC's fixpoint covers outcome sequences of EVERY length for every (N, T) with N <= MaxN.
Step == /\ (MaxLen = 0 \/ steps < MaxLen)
        /\ steps' = IF MaxLen = 0 THEN 0 ELSE steps + 1

Ack == /\ Step
       \* bound the history: once frozen nothing changes any more, before that keep the last N
       /\ hist' = IF frozen THEN hist ELSE LastN(Append(hist, FALSE), N)
       /\ LET r == Store(w1, c1, n1, FALSE) IN /\ w1' = r[1] /\ c1' = r[2] /\ n1' = r[3]
       \* v2: Ack(count) returns early when nackCount = 0, else stores
       /\ IF n2 = 0 THEN UNCHANGED <<w2, c2, n2>>
          ELSE LET r == Store(w2, c2, n2, FALSE) IN /\ w2' = r[1] /\ c2' = r[2] /\ n2' = r[3]
       /\ UNCHANGED <<N, T, frozen, d1, d2, dA>>

Nack == /\ Step /\ UNCHANGED <<N, T>>
        /\ LET ok == ~frozen /\ Tolerated(hist) IN
             /\ dA' = B(ok)
             /\ hist' = IF frozen THEN hist ELSE LastN(Append(hist, TRUE), N)
             /\ frozen' = (frozen \/ ~ok)
        /\ LET r == Store(w1, c1, n1, TRUE) IN
             /\ w1' = r[1] /\ c1' = r[2] /\ n1' = r[3]
             /\ d1' = B(T >= r[3])
        /\ IF Size = 0 THEN /\ d2' = B(TRUE) /\ UNCHANGED <<w2, c2, n2>>
           ELSE IF T < n2 THEN /\ d2' = B(FALSE) /\ UNCHANGED <<w2, c2, n2>>
           ELSE LET r == Store(w2, c2, n2, TRUE) IN
                  /\ w2' = r[1] /\ c2' = r[2] /\ n2' = r[3]
                  /\ d2' = B(~(T < r[3]))

Next == Ack \/ Nack
Spec == Init /\ [][Next]_vars

V1MatchesPolicy == d1 = dA
V2MatchesPolicy == d2 = dA
=============================================================================
