----------------------------- MODULE ParallelNode -----------------------------
(* The parallel processor node of the default (v1) engine (pkg/lifecycle/stream/parallel.go): one
   dispatcher (ParallelNode.Run), W workers (parallelNodeWorker, each wrapping its own processor node), one
   coordinator (parallelNodeCoordinator) and the error channel `errs` of capacity W between coordinator and
   dispatcher.  One action per blocking point of the code:

   dispatcher   trigger():   receives the next message OR an error from errs (a Go select: when both are ready
                             the runtime chooses - both actions are enabled);
                hold:        waits for a free worker (workerJobs <- job) or for "no worker is left".
                             HoldPolicy = "ignore": does not look at errs meanwhile (the code before fix F33);
                             "drain": keeps receiving from errs while it waits, the message in hand still goes to
                             a worker, then the node stops with the error (the code);
                             "giveup" / "giveup-sync": stops at the first error with the message in hand, which it
                             nacks last, in the deferred function / at once (two repairs that were tried and dropped:
                             the first changes which messages reach a worker - an existing test of the repository pins
                             that -, the second deadlocks on the source's ticket order);
                deferred:    closes the job channels, then waits for the workers and the coordinator.
                             DrainWhileWaitingWorkers = FALSE: waits for the workers first and drains errs only
                             while waiting for the coordinator (the code before fix F33); TRUE: drains errs while
                             waiting for both.
   worker       takes a job, processes it (pass: the message leaves on `out`; fail: the processor's own nack
                failed - StatusError - and the worker's node stops), hands it to the coordinator (job.Done() blocks
                until the coordinator collects it) and exits after a failed job or when the job channel is closed.
   coordinator  collects the jobs in dispatch order (job.Wait()); a job with a StatusError sets the fail latch and
                is reported on errs; after the latch every open message is nacked and a failing nack (nothing
                tolerated: NackErr) is reported on errs too; `errs <- err` blocks while errs is full.

   A nack of message m goes through the source's ticket queue: it returns only after every earlier message is
   resolved (acked / nacked / forwarded).

   Properties: no deadlock (CHECK_DEADLOCK: the only state without a successor other than Done-stuttering is a
   wedge), Finishes (the node returns), AllResolved (every message taken from the stream is resolved when the node
   has returned - otherwise the source node waits for it forever), InOrder.                                        *)
EXTENDS Naturals, Sequences, FiniteSets

CONSTANTS N, W,
          HoldPolicy,         \* "ignore" | "drain" | "giveup" | "giveup-sync"
          DrainWhileWaitingWorkers

Msg == 1..N
Wk == 1..W

VARIABLES res,       \* res[m] \in {"pass", "fail"}: chosen initially
          nackErr,   \* nackErr[m]: a nack of m by the coordinator fails (nothing tolerated)
          next,      \* next message of the incoming stream
          dpc, held, unsent,
          derr,      \* the dispatcher took an error while it was waiting for a worker
          wst, wjob, \* worker state "idle" | "busy" | "ready" (blocked in job.Done()) | "exited"
          cq,        \* coordinatorJobs
          cpc, cjob, cfail,
          errs,      \* number of errors in the channel (capacity W)
          closed,    \* the job channels are closed
          resolved, statusErr
vars == <<res, nackErr, next, dpc, held, unsent, derr, wst, wjob, cq, cpc, cjob, cfail, errs, closed, resolved, statusErr>>

Init == /\ res \in [Msg -> {"pass", "fail"}] /\ nackErr \in [Msg -> BOOLEAN]
        /\ \A m \in Msg : res[m] = "fail" => ~nackErr[m]     \* (irrelevant for a failed message: fewer initial states)
        /\ next = 1 /\ dpc = "trigger" /\ held = 0 /\ unsent = 0 /\ derr = FALSE
        /\ wst = [w \in Wk |-> "idle"] /\ wjob = [w \in Wk |-> 0]
        /\ cq = <<>> /\ cpc = "next" /\ cjob = 0 /\ cfail = FALSE
        /\ errs = 0 /\ closed = FALSE /\ resolved = {} /\ statusErr = {}

EarlierResolved(m) == \A k \in 1..(m - 1) : k \in resolved

\* ---------------------------------------------------------------- dispatcher
DTriggerMsg == /\ dpc = "trigger" /\ next <= N
               /\ held' = next /\ next' = next + 1 /\ dpc' = "hold"
               /\ UNCHANGED <<derr, res, nackErr, unsent, wst, wjob, cq, cpc, cjob, cfail, errs, closed, resolved, statusErr>>
DTriggerErr == /\ dpc = "trigger" /\ errs > 0
               /\ errs' = errs - 1 /\ dpc' = "defer"
               /\ UNCHANGED <<derr, res, nackErr, next, held, unsent, wst, wjob, cq, cpc, cjob, cfail, closed, resolved, statusErr>>
DTriggerEnd == /\ dpc = "trigger" /\ next = N + 1          \* the incoming stream is closed
               /\ dpc' = "defer"
               /\ UNCHANGED <<derr, res, nackErr, next, held, unsent, wst, wjob, cq, cpc, cjob, cfail, errs, closed, resolved, statusErr>>
DDispatch(w) == /\ dpc = "hold" /\ wst[w] = "idle" /\ ~closed
                /\ wst' = [wst EXCEPT ![w] = "busy"] /\ wjob' = [wjob EXCEPT ![w] = held]
                /\ cq' = Append(cq, held) /\ held' = 0
                /\ dpc' = (IF derr THEN "defer" ELSE "trigger")     \* after an error: stop like after a failed trigger
                /\ UNCHANGED <<res, nackErr, next, unsent, derr, cpc, cjob, cfail, errs, closed, resolved, statusErr>>
DNoWorker == /\ dpc = "hold" /\ \A w \in Wk : wst[w] = "exited"
             /\ EarlierResolved(held)                        \* msg.Nack(...) returns only then
             /\ resolved' = resolved \cup {held} /\ held' = 0 /\ dpc' = "defer"
             /\ UNCHANGED <<derr, res, nackErr, next, unsent, wst, wjob, cq, cpc, cjob, cfail, errs, closed, statusErr>>
DHoldErr == /\ HoldPolicy # "ignore" /\ dpc = "hold" /\ errs > 0
            /\ errs' = errs - 1
            /\ IF HoldPolicy = "drain"
                 THEN derr' = TRUE /\ UNCHANGED <<dpc, held, unsent>>          \* keeps waiting for a worker
               ELSE IF HoldPolicy = "giveup-sync"
                 THEN dpc' = "syncnack" /\ UNCHANGED <<held, unsent, derr>>
               ELSE dpc' = "defer" /\ unsent' = held /\ held' = 0 /\ UNCHANGED derr
            /\ UNCHANGED <<res, nackErr, next, wst, wjob, cq, cpc, cjob, cfail, closed, resolved, statusErr>>
DSyncNack == /\ dpc = "syncnack" /\ EarlierResolved(held)
             /\ resolved' = resolved \cup {held} /\ held' = 0 /\ dpc' = "defer"
             /\ UNCHANGED <<derr, res, nackErr, next, unsent, wst, wjob, cq, cpc, cjob, cfail, errs, closed, statusErr>>
DClose == /\ dpc = "defer"
          /\ closed' = TRUE /\ dpc' = (IF DrainWhileWaitingWorkers THEN "drain" ELSE "waitworkers")
          /\ UNCHANGED <<derr, res, nackErr, next, held, unsent, wst, wjob, cq, cpc, cjob, cfail, errs, resolved, statusErr>>
DWorkersGone == /\ dpc = "waitworkers" /\ \A w \in Wk : wst[w] = "exited"
                /\ dpc' = "drain"
                /\ UNCHANGED <<derr, res, nackErr, next, held, unsent, wst, wjob, cq, cpc, cjob, cfail, errs, closed, resolved, statusErr>>
DDrainErr == /\ dpc = "drain" /\ errs > 0
             /\ errs' = errs - 1
             /\ UNCHANGED <<derr, res, nackErr, next, dpc, held, unsent, wst, wjob, cq, cpc, cjob, cfail, closed, resolved, statusErr>>
DDrained == /\ dpc = "drain" /\ cpc = "closed" /\ \A w \in Wk : wst[w] = "exited"
            /\ errs' = 0
            /\ IF unsent # 0 THEN resolved' = resolved \cup {unsent} ELSE resolved' = resolved
            /\ dpc' = "done"
            /\ UNCHANGED <<derr, res, nackErr, next, held, unsent, wst, wjob, cq, cpc, cjob, cfail, closed, statusErr>>

\* ---------------------------------------------------------------- workers
WFinish(w) == /\ wst[w] = "busy"
              /\ LET m == wjob[w] IN
                 IF res[m] = "fail"
                   THEN /\ EarlierResolved(m)                \* the processor's own nack waits for its ticket
                        /\ resolved' = resolved \cup {m} /\ statusErr' = statusErr \cup {m}
                   ELSE UNCHANGED <<resolved, statusErr>>
              /\ wst' = [wst EXCEPT ![w] = "ready"]
              /\ UNCHANGED <<derr, res, nackErr, next, dpc, held, unsent, wjob, cq, cpc, cjob, cfail, errs, closed>>
WExit(w) == /\ wst[w] = "idle" /\ closed
            /\ wst' = [wst EXCEPT ![w] = "exited"]
            /\ UNCHANGED <<derr, res, nackErr, next, dpc, held, unsent, wjob, cq, cpc, cjob, cfail, errs, closed, resolved, statusErr>>

\* ---------------------------------------------------------------- coordinator
CTake == /\ cpc = "next" /\ cq # <<>>
         /\ cjob' = Head(cq) /\ cq' = Tail(cq) /\ cpc' = "wait"
         /\ UNCHANGED <<derr, res, nackErr, next, dpc, held, unsent, wst, wjob, cfail, errs, closed, resolved, statusErr>>
CCollect(w) ==
  /\ cpc = "wait" /\ wst[w] = "ready" /\ wjob[w] = cjob
  /\ wst' = [wst EXCEPT ![w] = (IF cjob \in statusErr THEN "exited" ELSE "idle")]
  /\ wjob' = [wjob EXCEPT ![w] = 0]
  /\ IF cjob \in statusErr
       THEN cpc' = "report" /\ cfail' = TRUE /\ UNCHANGED resolved
     ELSE IF cfail
       THEN /\ resolved' = resolved \cup {cjob}              \* in dispatch order: every earlier job is resolved
            /\ cpc' = (IF nackErr[cjob] THEN "report" ELSE "next") /\ UNCHANGED cfail
     ELSE resolved' = resolved \cup {cjob} /\ cpc' = "next" /\ UNCHANGED cfail      \* forwarded downstream
  /\ UNCHANGED <<derr, res, nackErr, next, dpc, held, unsent, cq, cjob, errs, closed, statusErr>>
CReport == /\ cpc = "report" /\ errs < W
           /\ errs' = errs + 1 /\ cpc' = "next"
           /\ UNCHANGED <<derr, res, nackErr, next, dpc, held, unsent, wst, wjob, cq, cjob, cfail, closed, resolved, statusErr>>
CClose == /\ cpc = "next" /\ cq = <<>> /\ closed
          /\ cpc' = "closed"
          /\ UNCHANGED <<derr, res, nackErr, next, dpc, held, unsent, wst, wjob, cq, cjob, cfail, errs, closed, resolved, statusErr>>

Done == dpc = "done" /\ UNCHANGED vars

Next == DTriggerMsg \/ DTriggerErr \/ DTriggerEnd \/ DNoWorker \/ DHoldErr \/ DSyncNack \/ DClose \/ DWorkersGone
        \/ DDrainErr \/ DDrained \/ CTake \/ CReport \/ CClose \/ Done
        \/ \E w \in Wk : DDispatch(w) \/ WFinish(w) \/ WExit(w) \/ CCollect(w)
Spec == Init /\ [][Next]_vars /\ WF_vars(Next)

TypeOK == /\ errs \in 0..W /\ Len(cq) <= W /\ dpc \in {"trigger", "hold", "syncnack", "defer", "waitworkers", "drain", "done"}
          /\ cpc \in {"next", "wait", "report", "closed"}
AllResolved == dpc = "done" => \A m \in 1..(next - 1) : m \in resolved
UnsentLast == (dpc = "done" /\ unsent # 0) => EarlierResolved(unsent)
\* what the coordinator resolves, it resolves in dispatch order
InOrder == (cpc = "wait") => EarlierResolved(cjob)
Finishes == <>(dpc = "done")
=============================================================================
