----------------------------- MODULE Accounting -----------------------------
(* C08 as a function: for a batch of N records, a result kind per record at each of two chained
   processor stages and a destination outcome per record, the outcome of every record is
   determined by its own results alone:
       "filtered"  every piece was filtered out                  -> acknowledged, nothing written
       "dlq"       some piece errored or was rejected            -> dead-lettered once, then acknowledged
       "acked"     every surviving piece confirmed               -> acknowledged after all confirmations
   TLC enumerates the whole case space (every initial state is one case) and prints each case
   with the expected outcome vector; the conformance driver replays every case on the real engine
   and the check compares the observed outcome of every record with Expected.  Independence
   ("no other record's outcome is affected") is built in: Expected(i) mentions only record i.   *)
EXTENDS Naturals, Sequences, TLC, Json

CONSTANTS N, Kinds1, Kinds2, Outcomes

VARIABLES k1, k2, out
vars == <<k1, k2, out>>

Init == /\ k1 \in [1..N -> Kinds1]
        /\ k2 \in [1..N -> Kinds2]
        /\ out \in [1..N -> Outcomes]
Next == UNCHANGED vars
Spec == Init /\ [][Next]_vars

\* number of pieces that leave stage 1 for record i
Pieces1(i) == CASE k1[i] \in {"filter", "multi0"} -> 0
                [] k1[i] = "error" -> 0
                [] k1[i] = "multi2" -> 2
                [] k1[i] = "multi3" -> 3
                [] OTHER -> 1
Errored(i) == k1[i] = "error" \/ (Pieces1(i) > 0 /\ k2[i] = "error")
\* pieces that reach the destination (stage 2's script applies to every piece of the record)
Survive(i) == IF Pieces1(i) = 0 \/ k2[i] \in {"filter", "multi0", "error"} THEN 0
              ELSE IF k2[i] = "multi2" THEN 2 * Pieces1(i) ELSE Pieces1(i)
Expected(i) ==
  IF Errored(i) THEN "dlq"
  ELSE IF Survive(i) = 0 THEN "filtered"
  ELSE IF out[i] = "rej" THEN "dlq"
  ELSE "acked"

Case == [k1 |-> k1, k2 |-> k2, out |-> out, expected |-> [i \in 1..N |-> Expected(i)],
         writes |-> [i \in 1..N |-> IF Errored(i) THEN 0 ELSE Survive(i)]]
EmitCase == PrintT("CASE " \o ToJson(Case))
=============================================================================
