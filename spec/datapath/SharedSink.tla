------------------------------ MODULE SharedSink ------------------------------
(* The v2 engine with several sources feeding ONE destination (pkg/lifecycle-poc/funnel: Worker.doTask at a
   shared boundary, DestinationTask.Do): each source has its own worker goroutine; entry into the shared
   destination subtree is serialised by sharedMu; the destination plugin answers on ONE ack stream, in write
   order; DestinationTask.Do writes its batch and then reads one confirmation per record, comparing position
   bytes only.  When a pass fails (the ack call fails, a confirmation does not match) confirmations may stay
   unread on the stream, so the failing worker marks the subtree `poisoned` before it unlocks, and a worker that
   acquires sharedMu afterwards refuses to enter.

   One action per step of the code: Read (the worker has a batch), Enter (sharedMu.Lock + poisoned.Load, in the
   order given by CheckUnderLock), Write, one TakeConfirmation per record, Leave / Fail (poison, unlock).
   Environment: a source hands over its next batch, the destination plugin confirms the oldest unanswered
   record, the next ack call fails.

   CheckUnderLock = TRUE  is the code: the poison is read after the lock is acquired.
   CheckUnderLock = FALSE reads it before queueing for the lock ("fail fast"): a worker that already waits for
                          the lock enters a poisoned subtree - TLC refutes PoisonRespected, and NoEarlyAck as well
                          when two sources' positions coincide (SamePositions = TRUE; positions are unique only
                          within a source).

   RTC = TRUE restricts the environment to quiescent states of the engine (run to completion): these are the
   behaviours the conformance driver can replay step by step on the real workers; every complete behaviour is
   exported (Emit) with what was written, what each source was told and how each worker ended.               *)
EXTENDS Naturals, Sequences, FiniteSets, TLC, Json

CONSTANTS Src,            \* e.g. {"a", "b"}
          NBatch,         \* batches per source
          BatchSize,      \* records per batch
          SamePositions, CheckUnderLock, RTC, Emit

None == "-"
Rec(s, i) == [src |-> s, idx |-> i]
Pos(r) == IF SamePositions THEN <<r.idx>> ELSE <<r.src, r.idx>>

VARIABLES handed,    \* handed[s]: batches the source has handed over
          wpc,       \* "idle" | "want" | "checked" | "write" | "ack" | "failed" | "refused"
          wbatch,    \* the batch (sequence of records) worker s is working on
          wconf,     \* the confirmations taken for it so far: the records they were really sent for
          lock, poisoned,
          written,   \* sequence of records, in write order
          unanswered,\* written records the plugin has not answered yet
          stream,    \* confirmations on the ack stream: the record each one really confirms
          failNext,  \* the next ack call fails
          acked,     \* acked[s]: records acknowledged to source s, with the record the confirmation was for
          script
vars == <<handed, wpc, wbatch, wconf, lock, poisoned, written, unanswered, stream, failNext, acked, script>>

Init == /\ handed = [s \in Src |-> 0] /\ wpc = [s \in Src |-> "idle"] /\ wbatch = [s \in Src |-> <<>>]
        /\ wconf = [s \in Src |-> <<>>] /\ lock = None /\ poisoned = FALSE /\ written = <<>> /\ unanswered = <<>>
        /\ stream = <<>> /\ failNext = FALSE /\ acked = [s \in Src |-> <<>>] /\ script = <<>>

Batch(s, b) == [k \in 1..BatchSize |-> Rec(s, (b - 1) * BatchSize + k)]

\* ------------------------------------------------------------------ engine (worker of source s)
PreCheck(s) == /\ ~CheckUnderLock /\ wpc[s] = "want"
               /\ wpc' = [wpc EXCEPT ![s] = IF poisoned THEN "refused" ELSE "checked"]
               /\ UNCHANGED <<handed, wbatch, wconf, lock, poisoned, written, unanswered, stream, failNext, acked, script>>
Enter(s) == /\ lock = None
            /\ IF CheckUnderLock
                 THEN /\ wpc[s] = "want"
                      /\ IF poisoned THEN wpc' = [wpc EXCEPT ![s] = "refused"] /\ UNCHANGED lock   \* lock, load, unlock
                                     ELSE wpc' = [wpc EXCEPT ![s] = "write"] /\ lock' = s
                 ELSE /\ wpc[s] = "checked"
                      /\ wpc' = [wpc EXCEPT ![s] = "write"] /\ lock' = s
            /\ UNCHANGED <<handed, wbatch, wconf, poisoned, written, unanswered, stream, failNext, acked, script>>
Write(s) == /\ wpc[s] = "write"
            /\ written' = written \o wbatch[s] /\ unanswered' = unanswered \o wbatch[s]
            /\ wpc' = [wpc EXCEPT ![s] = "ack"] /\ wconf' = [wconf EXCEPT ![s] = <<>>]
            /\ UNCHANGED <<handed, wbatch, lock, poisoned, stream, failNext, acked, script>>
FailPass(s) == /\ wpc' = [wpc EXCEPT ![s] = "failed"] /\ poisoned' = TRUE /\ lock' = None
AckCallFails(s) == /\ wpc[s] = "ack" /\ failNext
                   /\ failNext' = FALSE /\ FailPass(s)
                   /\ UNCHANGED <<handed, wbatch, wconf, written, unanswered, stream, acked, script>>
TakeConfirmation(s) ==
  /\ wpc[s] = "ack" /\ ~failNext /\ stream # <<>>
  /\ LET c == Head(stream)
         k == Len(wconf[s]) + 1
         r == wbatch[s][k] IN
     /\ stream' = Tail(stream)
     /\ IF Pos(c) # Pos(r)
          THEN FailPass(s) /\ UNCHANGED <<wconf, acked>>
        ELSE IF k < Len(wbatch[s])
          THEN wconf' = [wconf EXCEPT ![s] = Append(@, c)] /\ UNCHANGED <<wpc, poisoned, lock, acked>>
        ELSE \* the whole batch is confirmed: the pass ends, the source is told
             /\ acked' = [acked EXCEPT ![s] = @ \o [j \in 1..Len(wbatch[s]) |->
                                 [rec |-> wbatch[s][j], conf |-> Append(wconf[s], c)[j]]]]
             /\ wpc' = [wpc EXCEPT ![s] = "idle"] /\ lock' = None /\ UNCHANGED <<wconf, poisoned>>
  /\ UNCHANGED <<handed, wbatch, written, unanswered, failNext, script>>

EngineStep == \E s \in Src : PreCheck(s) \/ Enter(s) \/ Write(s) \/ AckCallFails(s) \/ TakeConfirmation(s)
Quiescent == ~ENABLED EngineStep

\* ------------------------------------------------------------------ environment
EnvOK == ~RTC \/ Quiescent
EmitBatch(s) == /\ EnvOK /\ wpc[s] = "idle" /\ handed[s] < NBatch
                /\ handed' = [handed EXCEPT ![s] = @ + 1]
                /\ wbatch' = [wbatch EXCEPT ![s] = Batch(s, handed[s] + 1)]
                /\ wpc' = [wpc EXCEPT ![s] = "want"]            \* Read returns, the worker heads for the destination
                /\ script' = Append(script, <<"emit", s>>)
                /\ UNCHANGED <<wconf, lock, poisoned, written, unanswered, stream, failNext, acked>>
Confirm == /\ EnvOK /\ unanswered # <<>>
           /\ stream' = Append(stream, Head(unanswered)) /\ unanswered' = Tail(unanswered)
           /\ script' = Append(script, <<"confirm", Head(unanswered).src>>)
           /\ UNCHANGED <<handed, wpc, wbatch, wconf, lock, poisoned, written, failNext, acked>>
FailAck == /\ EnvOK /\ ~failNext /\ ~poisoned /\ \E s \in Src : wpc[s] = "ack"
           /\ failNext' = TRUE
           /\ script' = Append(script, <<"failack", "">>)
           /\ UNCHANGED <<handed, wpc, wbatch, wconf, lock, poisoned, written, unanswered, stream, acked>>

Next == EngineStep \/ Confirm \/ FailAck \/ \E s \in Src : EmitBatch(s)
Spec == Init /\ [][Next]_vars

\* ------------------------------------------------------------------ properties
\* C01: a source is told only about records the destination confirmed - the confirmation was for THAT record
NoEarlyAck == \A s \in Src : \A k \in DOMAIN acked[s] : acked[s][k].conf = acked[s][k].rec
\* nobody writes into the destination once a pass through it has failed
PoisonRespected == poisoned => \A s \in Src : wpc[s] \notin {"write", "ack"}
\* C05: one writer at a time
OneWriter == Cardinality({s \in Src : wpc[s] \in {"write", "ack"}}) <= 1
LockAgrees == \A s \in Src : (wpc[s] \in {"write", "ack"}) <=> lock = s

Terminal == Quiescent /\ ~ENABLED (Confirm \/ FailAck \/ \E s \in Src : EmitBatch(s))
Case == [script |-> script, written |-> written,
         acked |-> [s \in Src |-> [k \in DOMAIN acked[s] |-> acked[s][k].rec.idx]],
         ended |-> wpc]
EmitCase == (Emit /\ Terminal) => PrintT("CASE " \o ToJson(Case))
View == <<handed, wpc, wbatch, wconf, lock, poisoned, written, unanswered, stream, failNext, acked>>
=============================================================================
