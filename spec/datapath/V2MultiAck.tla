----------------------------- MODULE V2MultiAck -----------------------------
(* Layer B: the arbitration of M destination branches over one fanned-out batch in the v2 engine
   (pkg/lifecycle-poc/funnel/worker.go: multiAckNacker.Ack / Nack / releaseLocked), transcribed
   action by action.  Every branch reports each of the N original positions once, acked or nacked,
   in batch order within the branch and in any interleaving across branches; an ack becomes terminal
   only when all M branches acked, a nack is terminal at once; releaseLocked hands a maximal
   terminal PREFIX to the parent (the worker: Source.Ack for acked runs, DLQ + Source.Ack for
   nacked ones) and advances `released` only when the parent call succeeded - for an acked run as well as
   for a nacked position; after a failed parent call the branches that are still in flight keep voting and
   every later release re-attempts the call that failed (FailAt = which parent call of a release fails).
   Properties: NoEarlyAck (the parent is told "ack i" only if every branch acked i), PrefixRelease
   (parent calls cover 1..released in order, each index exactly once unless a failed Nack is
   retried), NackWins, AllReleased (once every branch has voted on everything and the parent never
   fails, everything was released).                                                             *)
EXTENDS Naturals, Sequences, FiniteSets, TLC, Json

CONSTANTS N, M, AllowParentFail,
          Emit        \* TRUE: print every complete voting history with the expected parent calls (conformance cases)

Idx == 1..N
Br == 1..M

VARIABLES voted,     \* voted[b]: how many positions branch b has reported so far (in batch order)
          outcome,   \* outcome[b][i] \in {"-", "ack", "nack"}
          ackVotes, terminal, acked, released,
          calls,     \* parent calls so far: <<"ack", from, to, ok>> | <<"nack", i, i, ok>>
          failed,    \* some parent call has failed (the pipeline is stopping; branches in flight still vote)
          script     \* history: the votes <<b, isAck, len, failAt>> (conformance cases)
vars == <<voted, outcome, ackVotes, terminal, acked, released, calls, failed, script>>

Init == /\ voted = [b \in Br |-> 0] /\ outcome = [b \in Br |-> [i \in Idx |-> "-"]]
        /\ ackVotes = [i \in Idx |-> 0] /\ terminal = [i \in Idx |-> FALSE] /\ acked = [i \in Idx |-> FALSE]
        /\ released = 0 /\ calls = <<>> /\ failed = FALSE /\ script = <<>>

\* releaseLocked, as a function of the tally: returns <<released', calls', failed-in-this-release>>.
\* made = parent calls issued so far in this release; the failAt-th one fails (0 = none) and ends the release.
RECURSIVE Release(_, _, _, _, _, _)
Release(term, ak, rel, cs, failAt, made) ==
  IF rel >= N \/ ~term[rel + 1] THEN <<rel, cs, FALSE>>
  ELSE IF ak[rel + 1]
    THEN LET RECURSIVE Upto(_)
             Upto(k) == IF k < N /\ term[k + 1] /\ ak[k + 1] THEN Upto(k + 1) ELSE k
             to == Upto(rel) IN
         IF failAt = made + 1 THEN <<rel, Append(cs, <<"ack", rel + 1, to, FALSE>>), TRUE>>
         ELSE Release(term, ak, to, Append(cs, <<"ack", rel + 1, to, TRUE>>), failAt, made + 1)
    ELSE IF failAt = made + 1 THEN <<rel, Append(cs, <<"nack", rel + 1, rel + 1, FALSE>>), TRUE>>
         ELSE Release(term, ak, rel + 1, Append(cs, <<"nack", rel + 1, rel + 1, TRUE>>), failAt, made + 1)

\* how many parent calls a release would issue if none failed
NCalls(term, ak, rel) == Len(Release(term, ak, rel, <<>>, 0, 0)[2])

\* branch b reports its next len positions in ONE Ack / Nack call: all of them are tallied, then one release
RECURSIVE Tally(_, _, _, _, _, _, _)
Tally(av, tm, ak, i, last, isAck, dummy) ==
  IF i > last THEN <<av, tm, ak>>
  ELSE IF tm[i] THEN Tally(av, tm, ak, i + 1, last, isAck, dummy)
  ELSE IF isAck
    THEN LET av2 == [av EXCEPT ![i] = @ + 1] IN
         Tally(av2, [tm EXCEPT ![i] = av2[i] = M], [ak EXCEPT ![i] = av2[i] = M], i + 1, last, isAck, dummy)
    ELSE Tally(av, [tm EXCEPT ![i] = TRUE], [ak EXCEPT ![i] = FALSE], i + 1, last, isAck, dummy)

Vote(b, isAck, len, failAt) ==
  /\ voted[b] + len <= N
  /\ (failAt = 0 \/ AllowParentFail)
  /\ LET first == voted[b] + 1
         last == voted[b] + len
         t == Tally(ackVotes, terminal, acked, first, last, isAck, 0)
         r == Release(t[2], t[3], released, calls, failAt, 0) IN
     /\ failAt <= NCalls(t[2], t[3], released)      \* only a call that is issued can fail
     /\ voted' = [voted EXCEPT ![b] = last]
     /\ outcome' = [outcome EXCEPT ![b] = [i \in Idx |-> IF i \in first..last THEN (IF isAck THEN "ack" ELSE "nack") ELSE @[i]]]
     /\ ackVotes' = t[1] /\ terminal' = t[2] /\ acked' = t[3]
     /\ released' = r[1] /\ calls' = r[2] /\ failed' = (failed \/ r[3])
     /\ script' = Append(script, <<b, isAck, len, failAt>>)

Next == \E b \in Br, isAck \in BOOLEAN, len \in 1..N, f \in 0..2 : Vote(b, isAck, len, f)
Spec == Init /\ [][Next]_vars

Ok(c) == c[4]
AckedTo(c) == IF c[1] = "ack" /\ Ok(c) THEN c[2]..c[3] ELSE {}
NoEarlyAck == \A k \in DOMAIN calls : \A i \in AckedTo(calls[k]) : \A b \in Br : outcome[b][i] = "ack"
\* the successful parent calls cover 1..released, in order, without gaps or repeats; a failed call covers nothing
\* and is re-attempted from the same place
Covered == LET RECURSIVE Cov(_, _)
               Cov(k, upto) == IF k > Len(calls) THEN upto
                               ELSE LET c == calls[k] IN
                                    IF c[2] # upto + 1 THEN N + 100
                                    ELSE IF Ok(c) THEN Cov(k + 1, c[3]) ELSE Cov(k + 1, upto)
           IN Cov(1, 0)
PrefixRelease == Covered = released
NackWins == \A k \in DOMAIN calls : calls[k][1] = "nack" => \E b \in Br : outcome[b][calls[k][2]] = "nack"
AllVoted == \A b \in Br : voted[b] = N
AllReleased == (AllVoted /\ ~failed) => released = N

Case == [n |-> N, m |-> M, votes |-> script, calls |-> calls, released |-> released]
EmitCase == (Emit /\ AllVoted) => PrintT("CASE " \o ToJson(Case))
View == <<voted, outcome, ackVotes, terminal, acked, released, calls, failed>>
=============================================================================
