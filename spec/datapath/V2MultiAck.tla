----------------------------- MODULE V2MultiAck -----------------------------
(* Layer B: the arbitration of M destination branches over one fanned-out batch in the v2 engine
   (pkg/lifecycle-poc/funnel/worker.go: multiAckNacker.Ack / Nack / releaseLocked), transcribed
   action by action.  Every branch reports each of the N original positions once, acked or nacked,
   in batch order within the branch and in any interleaving across branches; an ack becomes terminal
   only when all M branches acked, a nack is terminal at once; releaseLocked hands a maximal
   terminal PREFIX to the parent (the worker: Source.Ack for acked runs, DLQ + Source.Ack for
   nacked ones) and advances `released` only when the parent call succeeded.
   Properties: NoEarlyAck (the parent is told "ack i" only if every branch acked i), PrefixRelease
   (parent calls cover 1..released in order, each index exactly once unless a failed Nack is
   retried), NackWins, AllReleased (once every branch has voted on everything and the parent never
   fails, everything was released).                                                             *)
EXTENDS Naturals, Sequences, FiniteSets, TLC

CONSTANTS N, M, AllowParentFail

Idx == 1..N
Br == 1..M

VARIABLES voted,     \* voted[b]: how many positions branch b has reported so far (in batch order)
          outcome,   \* outcome[b][i] \in {"-", "ack", "nack"}
          ackVotes, terminal, acked, released,
          calls,     \* parent calls so far: <<"ack", from, to>> | <<"nack", i, ok>>
          failed     \* a parent call failed: the pipeline is stopping
vars == <<voted, outcome, ackVotes, terminal, acked, released, calls, failed>>

Init == /\ voted = [b \in Br |-> 0] /\ outcome = [b \in Br |-> [i \in Idx |-> "-"]]
        /\ ackVotes = [i \in Idx |-> 0] /\ terminal = [i \in Idx |-> FALSE] /\ acked = [i \in Idx |-> FALSE]
        /\ released = 0 /\ calls = <<>> /\ failed = FALSE

\* releaseLocked, as a function of the tally: returns <<released', calls', failed'>>
RECURSIVE Release(_, _, _, _, _)
Release(term, ak, rel, cs, parentOk) ==
  IF rel >= N \/ ~term[rel + 1] THEN <<rel, cs, FALSE>>
  ELSE IF ak[rel + 1]
    THEN LET RECURSIVE Upto(_)
             Upto(k) == IF k < N /\ term[k + 1] /\ ak[k + 1] THEN Upto(k + 1) ELSE k
             to == Upto(rel) IN
         Release(term, ak, to, Append(cs, <<"ack", rel + 1, to>>), parentOk)
    ELSE IF parentOk
      THEN Release(term, ak, rel + 1, Append(cs, <<"nack", rel + 1, TRUE>>), parentOk)
      ELSE <<rel, Append(cs, <<"nack", rel + 1, FALSE>>), TRUE>>

\* branch b reports its next position (a batch-level Ack / Nack call is a run of these)
Vote(b, isAck, parentOk) ==
  /\ ~failed /\ voted[b] < N
  /\ (parentOk \/ AllowParentFail)
  /\ LET i == voted[b] + 1
         skip == terminal[i]
         av == IF isAck /\ ~skip THEN [ackVotes EXCEPT ![i] = @ + 1] ELSE ackVotes
         tm == IF skip THEN terminal
               ELSE IF isAck THEN [terminal EXCEPT ![i] = av[i] = M] ELSE [terminal EXCEPT ![i] = TRUE]
         ak == IF skip THEN acked
               ELSE IF isAck THEN [acked EXCEPT ![i] = av[i] = M] ELSE [acked EXCEPT ![i] = FALSE]
         r == Release(tm, ak, released, calls, parentOk) IN
     /\ voted' = [voted EXCEPT ![b] = i]
     /\ outcome' = [outcome EXCEPT ![b][i] = IF isAck THEN "ack" ELSE "nack"]
     /\ ackVotes' = av /\ terminal' = tm /\ acked' = ak
     /\ released' = r[1] /\ calls' = r[2] /\ failed' = r[3]

Next == \E b \in Br, isAck \in BOOLEAN, ok \in BOOLEAN : Vote(b, isAck, ok)
Spec == Init /\ [][Next]_vars

AckedTo(c) == IF c[1] = "ack" THEN c[2]..c[3] ELSE {}
NoEarlyAck == \A k \in DOMAIN calls : \A i \in AckedTo(calls[k]) : \A b \in Br : outcome[b][i] = "ack"
\* the successful parent calls cover 1..released, in order, without gaps or repeats
Covered == LET RECURSIVE Cov(_, _)
               Cov(k, upto) == IF k > Len(calls) THEN upto
                               ELSE LET c == calls[k] IN
                                    IF c[1] = "ack" THEN (IF c[2] = upto + 1 THEN Cov(k + 1, c[3]) ELSE N + 100)
                                    ELSE IF c[3] THEN (IF c[2] = upto + 1 THEN Cov(k + 1, c[2]) ELSE N + 100)
                                    ELSE (IF c[2] = upto + 1 THEN Cov(k + 1, upto) ELSE N + 100)
           IN Cov(1, 0)
PrefixRelease == Covered = released
NackWins == \A k \in DOMAIN calls : calls[k][1] = "nack" => \E b \in Br : outcome[b][calls[k][2]] = "nack"
AllVoted == \A b \in Br : voted[b] = N
AllReleased == (AllVoted /\ ~failed) => released = N
=============================================================================
