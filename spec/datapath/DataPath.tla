------------------------------ MODULE DataPath ------------------------------
(* Layer A model of the data path: the environment (sources, processors' filter decisions,
   destinations, the DLQ) acts nondeterministically, the engine's observable outputs (Write, DlqWrite,
   SrcAck) are guarded by exactly the operators the properties are stated with (DataPathOps).
   Uses: (1) consistency of the vocabulary - the guards imply the stated properties and never
   dead-end (every record is eventually acknowledged or the pipeline has failed);
   (2) behaviour generation - TLC -simulate prints environment schedules that the conformance
   harness replays against the real engines (spec -> code binding).                            *)
EXTENDS DataPathOps, TLC, Json

CONSTANTS Srcs, Dsts, N, Window, Threshold, AllowFilter, AllowReject, AllowDlqFail

VARIABLES st, hist, failed, script
vars == <<st, hist, failed, script>>

Init ==
  /\ st = [srcs |-> Srcs, dsts |-> Dsts,
           emitted |-> [s \in Srcs |-> <<>>], pend |-> [d \in Dsts |-> {}],
           wr |-> [d \in Dsts |-> <<>>], acked |-> [s \in Srcs |-> <<>>],
           dlqW |-> <<>>, dlqP |-> {}, dlqDone |-> {}, dlqFail |-> {}, rej |-> {},
           ans |-> [d \in Dsts |-> 0]]          \* ans[d]: number of d's writes already answered
  /\ hist = <<>>            \* DLQ window: outcomes so far (TRUE = nack)
  /\ failed = FALSE
  /\ script = <<>>

Rng(f) == {f[k] : k \in DOMAIN f}
Log(e) == script' = Append(script, e)

Emit(s) ==
  /\ ~failed /\ Len(st.emitted[s]) < N
  /\ LET i == Len(st.emitted[s]) + 1 IN
     /\ st' = [st EXCEPT !.emitted[s] = Append(@, i),
                          !.pend = [d \in Dsts |-> st.pend[d] \cup {<<s, i, <<>>>>}]]
     /\ Log([do |-> "Emit", src |-> s])
  /\ UNCHANGED <<hist, failed>>

\* a processor on the shared path filters a record nobody has seen yet
Filter(x) ==
  /\ AllowFilter /\ ~failed
  /\ \A d \in Dsts : x \in st.pend[d] /\ x \notin Rng(st.wr[d])
  /\ st' = [st EXCEPT !.pend = [d \in Dsts |-> st.pend[d] \ {x}]]
  /\ Log([do |-> "Filter", src |-> x[1], idx |-> x[2]])
  /\ UNCHANGED <<hist, failed>>

\* engine output: a pending piece is written to d, in read order
Write(d, x) ==
  /\ ~failed /\ x \in st.pend[d] /\ x \notin Rng(st.wr[d])
  /\ WriteInOrder(st, d, x)
  \* earlier records of the same source go first, unless they were rejected elsewhere (the engine
  \* may or may not still write a record that is already on its way to the DLQ)
  /\ \A y \in st.pend[d] : (y[1] = x[1] /\ PieceLess(y, x)) =>
        (y \in Rng(st.wr[d]) \/ \E z \in st.rej : Origin(z) = Origin(y))
  /\ st' = [st EXCEPT !.wr[d] = Append(@, x)]
  /\ UNCHANGED <<hist, failed, script>>

\* a destination answers its oldest unanswered write
Confirm(d) ==
  /\ st.ans[d] < Len(st.wr[d])
  /\ LET x == st.wr[d][st.ans[d] + 1] IN
     /\ st' = [st EXCEPT !.ans[d] = @ + 1, !.pend[d] = @ \ {x}]
     /\ Log([do |-> "Confirm", dst |-> d])
  /\ UNCHANGED <<hist, failed>>

Reject(d) ==
  /\ AllowReject /\ st.ans[d] < Len(st.wr[d])
  /\ LET x == st.wr[d][st.ans[d] + 1] IN
     /\ st' = [st EXCEPT !.ans[d] = @ + 1, !.rej = @ \cup {x}]
     /\ Log([do |-> "Reject", dst |-> d])
  /\ UNCHANGED <<hist, failed>>

LastN(s, k) == IF Len(s) <= k THEN s ELSE SubSeq(s, Len(s) - k + 1, Len(s))
Nacks(s) == Cardinality({k \in DOMAIN s : s[k]})
Tolerated == Window = 0 \/ Nacks(LastN(Append(hist, TRUE), Window)) <= Threshold

\* engine output: a rejected origin is dead-lettered once, if the window still permits it
DlqWrite(o) ==
  /\ ~failed /\ (\E x \in st.rej : Origin(x) = o) /\ o \notin Rng(st.dlqW)
  /\ IF Tolerated
       THEN /\ st' = [st EXCEPT !.dlqW = Append(@, o), !.dlqP = @ \cup {o}]
            /\ hist' = Append(hist, TRUE) /\ UNCHANGED failed
       ELSE /\ failed' = TRUE /\ UNCHANGED <<st, hist>>
  /\ UNCHANGED script

DlqConfirm(o) ==
  /\ o \in st.dlqP
  /\ st' = [st EXCEPT !.dlqP = @ \ {o}, !.dlqDone = @ \cup {o}]
  /\ Log([do |-> "DlqConfirm"])
  /\ UNCHANGED <<hist, failed>>

DlqFail(o) ==
  /\ AllowDlqFail /\ o \in st.dlqP
  /\ st' = [st EXCEPT !.dlqP = @ \ {o}, !.dlqFail = @ \cup {o}]
  /\ failed' = TRUE
  /\ Log([do |-> "DlqReject"])
  /\ UNCHANGED hist

\* engine output: the next record in read order is acknowledged once it is handled
SrcAck(s) ==
  /\ Len(st.acked[s]) < Len(st.emitted[s])
  /\ LET i == st.emitted[s][Len(st.acked[s]) + 1] IN
     /\ CanAck(st, <<s, i>>)
     /\ st' = [st EXCEPT !.acked[s] = Append(@, i)]
     /\ hist' = IF <<s, i>> \in st.dlqDone THEN hist ELSE Append(hist, FALSE)
  /\ UNCHANGED <<failed, script>>

Next ==
  \/ \E s \in Srcs : Emit(s) \/ SrcAck(s)
  \/ \E d \in Dsts : Confirm(d) \/ Reject(d) \/ (\E x \in st.pend[d] : Write(d, x))
  \/ \E d \in Dsts : \E x \in st.pend[d] : Filter(x)
  \/ \E x \in st.rej : DlqWrite(Origin(x))
  \/ \E o \in st.dlqP : DlqConfirm(o) \/ DlqFail(o)

Fair == /\ \A s \in Srcs : WF_vars(Emit(s)) /\ WF_vars(SrcAck(s))
        /\ \A d \in Dsts : WF_vars(Confirm(d) \/ Reject(d)) /\ WF_vars(\E x \in st.pend[d] : Write(d, x))
        /\ WF_vars(\E x \in st.rej : DlqWrite(Origin(x)))
        /\ WF_vars(\E o \in st.dlqP : DlqConfirm(o) \/ DlqFail(o))
Spec == Init /\ [][Next]_vars /\ Fair

(* --- the stated properties, on the model --- *)
AckPrefix == \A s \in Srcs : IsPrefix(st.acked[s], st.emitted[s])
NoEarlyAck == \A s \in Srcs : \A k \in 1..Len(st.acked[s]) : CanAck(st, <<s, st.acked[s][k]>>)
DestOrder == \A d \in Dsts : \A j, k \in 1..Len(st.wr[d]) :
               (j < k /\ st.wr[d][j][1] = st.wr[d][k][1]) => PieceLess(st.wr[d][j], st.wr[d][k])
DlqOnce == \A j, k \in 1..Len(st.dlqW) : j # k => st.dlqW[j] # st.dlqW[k]
DlqFailNoAck == \A o \in st.dlqFail : o[2] \notin Rng(st.acked[o[1]])
Done == \A s \in Srcs : Len(st.acked[s]) = N
Progress == <>(Done \/ failed)

\* behaviour generation: print the environment schedule of every terminal behaviour
Terminal == Done \/ failed
EmitScript == Terminal => PrintT("SCRIPT " \o ToJson(script))

View == <<st, hist, failed>>
=============================================================================
