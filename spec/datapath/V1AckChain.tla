----------------------------- MODULE V1AckChain -----------------------------
(* Layer B: the ack / nack handler chain of the default (v1) engine for one source
   (pkg/lifecycle/stream: FanoutNode.remainingAcks, Message ack/nack idempotence,
   SourceAckerNode ticket semaphore + fail latch, DLQHandlerNode window decision).
   N records flow to M destination branches; each branch answers its records in order, ack or
   nack, branches interleave arbitrarily.  FanoutNode: the last of M acks acknowledges the
   original message, the first nack nacks it (later answers of other branches change nothing).
   SourceAckerNode: the handler of record i runs only after the handlers of all earlier records
   (tickets); an ack forwards position i to the source connector unless the fail latch is set; a
   nack asks the DLQ: tolerated -> DLQ write, then position i is acknowledged; refused -> the fail
   latch is set and nothing is acknowledged any more.
   Properties: NoEarlyAck, AckPrefix (what the source hears is 1..k in order), DlqOnce,
   DlqBeforeAck, FailLatch (nothing is acknowledged after a refusal).                            *)
EXTENDS Naturals, Sequences, FiniteSets, TLC

CONSTANTS N, M, Tolerate   \* Tolerate: number of nacks the DLQ window tolerates (abstract policy)

Idx == 1..N
Br == 1..M

VARIABLES ans,      \* ans[b]: how many records branch b has answered (in order)
          out,      \* out[b][i] \in {"-", "ack", "nack"}
          rem,      \* remainingAcks of the original message i
          status,   \* "open" | "acked" | "nacked"   (Message status; ack / nack are idempotent)
          head,     \* next ticket to be served
          fail, srcAcks, dlq, nacks
vars == <<ans, out, rem, status, head, fail, srcAcks, dlq, nacks>>

Init == /\ ans = [b \in Br |-> 0] /\ out = [b \in Br |-> [i \in Idx |-> "-"]]
        /\ rem = [i \in Idx |-> M] /\ status = [i \in Idx |-> "open"] /\ head = 1
        /\ fail = FALSE /\ srcAcks = <<>> /\ dlq = <<>> /\ nacks = 0

BranchAnswer(b, isAck) ==
  /\ ans[b] < N
  /\ LET i == ans[b] + 1 IN
     /\ ans' = [ans EXCEPT ![b] = i]
     /\ out' = [out EXCEPT ![b][i] = IF isAck THEN "ack" ELSE "nack"]
     /\ IF isAck
          THEN /\ rem' = [rem EXCEPT ![i] = @ - 1]
               /\ status' = IF rem[i] = 1 /\ status[i] = "open" THEN [status EXCEPT ![i] = "acked"] ELSE status
          ELSE /\ rem' = rem
               /\ status' = IF status[i] = "open" THEN [status EXCEPT ![i] = "nacked"] ELSE status
  /\ UNCHANGED <<head, fail, srcAcks, dlq, nacks>>

\* the source acker's handler of record `head` (its ticket is at the front)
Serve ==
  /\ head <= N /\ status[head] # "open"
  /\ IF fail THEN UNCHANGED <<fail, srcAcks, dlq, nacks>>
     ELSE IF status[head] = "acked"
       THEN srcAcks' = Append(srcAcks, head) /\ UNCHANGED <<fail, dlq, nacks>>
     ELSE IF nacks < Tolerate
       THEN /\ dlq' = Append(dlq, head) /\ srcAcks' = Append(srcAcks, head)
            /\ nacks' = nacks + 1 /\ UNCHANGED fail
       ELSE fail' = TRUE /\ UNCHANGED <<srcAcks, dlq, nacks>>
  /\ head' = head + 1
  /\ UNCHANGED <<ans, out, rem, status>>

Next == Serve \/ \E b \in Br, a \in BOOLEAN : BranchAnswer(b, a)
Spec == Init /\ [][Next]_vars /\ WF_vars(Serve)

Rng(s) == {s[k] : k \in DOMAIN s}
NoEarlyAck == \A i \in Rng(srcAcks) : i \in Rng(dlq) \/ \A b \in Br : out[b][i] = "ack"
AckPrefix == \A k \in DOMAIN srcAcks : srcAcks[k] = k
DlqOnce == \A j, k \in DOMAIN dlq : j # k => dlq[j] # dlq[k]
DlqOnlyRejected == \A i \in Rng(dlq) : \E b \in Br : out[b][i] = "nack"
FailLatch == fail => Len(srcAcks) < head - 1
AllAnswered == \A b \in Br : ans[b] = N
Drained == <>(AllAnswered => (head = N + 1))
=============================================================================
