----------------------------- MODULE V1AckChain -----------------------------
(* Layer B: the ack / nack handler chain of the default (v1) engine for one source
   (pkg/lifecycle/stream: FanoutNode.remainingAcks, Message ack/nack idempotence,
   SourceAckerNode ticket semaphore + fail latch, DLQHandlerNode window decision).
   N records flow to M destination branches; each branch answers its records in order, ack or
   nack, branches interleave arbitrarily.  FanoutNode: the last of M acks acknowledges the
   original message, the first nack nacks it (later answers of other branches change nothing).
   SourceAckerNode: the handler of record i runs only after the handlers of all earlier records
   (tickets); an ack forwards position i to the source connector unless the fail latch is set; a
   nack asks the DLQ: tolerated -> DLQ write, then position i is acknowledged; refused -> the fail
   latch is set and nothing is acknowledged any more.
   A forward to the source connector (Source.Ack) or a dead-letter write can fail (the SrcFailAt-th forward /
   the DlqFailAt-th write of the history): the fail latch is set and nothing is acknowledged any more.
   Properties: NoEarlyAck, AckPrefix (what the source hears is 1..k in order), DlqOnce,
   DlqBeforeAck, FailLatch (nothing is acknowledged after a refusal or a failure).
   With Emit = TRUE every complete history is printed with the expected forwards and dead-letter writes; the
   conformance harness replays it on the REAL FanoutNode / SourceAckerNode / DLQHandlerNode.       *)
EXTENDS Naturals, Sequences, FiniteSets, TLC, Json

CONSTANTS N, M,
          Tolerates,   \* set of values for Tolerate: number of nacks the DLQ window tolerates (abstract policy)
          AllowFail,   \* TRUE: a forward to the source / a dead-letter write may fail
          Emit

Idx == 1..N
Br == 1..M

VARIABLES ans,      \* ans[b]: how many records branch b has answered (in order)
          out,      \* out[b][i] \in {"-", "ack", "nack"}
          rem,      \* remainingAcks of the original message i
          status,   \* "open" | "acked" | "nacked"   (Message status; ack / nack are idempotent)
          head,     \* next ticket to be served
          fail, srcAcks, dlq, nacks,
          tol, srcFailAt, dlqFailAt,   \* chosen initially: the policy and which forward / write fails (0 = none)
          srcCalls, dlqCalls,          \* forwards / writes attempted so far
          script                       \* history: the branch answers <<b, isAck>> in the order they are given
vars == <<ans, out, rem, status, head, fail, srcAcks, dlq, nacks, tol, srcFailAt, dlqFailAt, srcCalls, dlqCalls, script>>

Init == /\ ans = [b \in Br |-> 0] /\ out = [b \in Br |-> [i \in Idx |-> "-"]]
        /\ rem = [i \in Idx |-> M] /\ status = [i \in Idx |-> "open"] /\ head = 1
        /\ fail = FALSE /\ srcAcks = <<>> /\ dlq = <<>> /\ nacks = 0
        /\ tol \in Tolerates
        /\ srcFailAt \in (IF AllowFail THEN 0..N ELSE {0}) /\ dlqFailAt \in (IF AllowFail THEN 0..2 ELSE {0})
        /\ srcCalls = 0 /\ dlqCalls = 0 /\ script = <<>>

BranchAnswer(b, isAck) ==
  /\ ans[b] < N
  /\ LET i == ans[b] + 1 IN
     /\ ans' = [ans EXCEPT ![b] = i]
     /\ out' = [out EXCEPT ![b][i] = IF isAck THEN "ack" ELSE "nack"]
     /\ IF isAck
          THEN /\ rem' = [rem EXCEPT ![i] = @ - 1]
               /\ status' = IF rem[i] = 1 /\ status[i] = "open" THEN [status EXCEPT ![i] = "acked"] ELSE status
          ELSE /\ rem' = rem
               /\ status' = IF status[i] = "open" THEN [status EXCEPT ![i] = "nacked"] ELSE status
  /\ script' = Append(script, <<b, isAck>>)
  /\ UNCHANGED <<head, fail, srcAcks, dlq, nacks, tol, srcFailAt, dlqFailAt, srcCalls, dlqCalls>>

\* forward position `head` to the source connector: the srcFailAt-th forward fails
Forward(sa, f, sc) == IF sc + 1 = srcFailAt THEN <<sa, TRUE, sc + 1>> ELSE <<Append(sa, head), f, sc + 1>>

\* the source acker's handler of record `head` (its ticket is at the front)
Serve ==
  /\ head <= N /\ status[head] # "open"
  /\ IF fail THEN UNCHANGED <<fail, srcAcks, dlq, nacks, srcCalls, dlqCalls>>
     ELSE IF status[head] = "acked"
       THEN LET r == Forward(srcAcks, fail, srcCalls) IN
            srcAcks' = r[1] /\ fail' = r[2] /\ srcCalls' = r[3] /\ UNCHANGED <<dlq, nacks, dlqCalls>>
     ELSE IF nacks < tol
       THEN IF dlqCalls + 1 = dlqFailAt
              THEN fail' = TRUE /\ dlqCalls' = dlqCalls + 1 /\ nacks' = nacks + 1 /\ UNCHANGED <<srcAcks, dlq, srcCalls>>
              ELSE LET r == Forward(srcAcks, fail, srcCalls) IN
                   /\ dlq' = Append(dlq, head) /\ dlqCalls' = dlqCalls + 1 /\ nacks' = nacks + 1
                   /\ srcAcks' = r[1] /\ fail' = r[2] /\ srcCalls' = r[3]
       ELSE fail' = TRUE /\ UNCHANGED <<srcAcks, dlq, nacks, srcCalls, dlqCalls>>
  /\ head' = head + 1
  /\ UNCHANGED <<ans, out, rem, status, tol, srcFailAt, dlqFailAt, script>>

Next == Serve \/ \E b \in Br, a \in BOOLEAN : BranchAnswer(b, a)
Spec == Init /\ [][Next]_vars /\ WF_vars(Serve)

Rng(s) == {s[k] : k \in DOMAIN s}
NoEarlyAck == \A i \in Rng(srcAcks) : i \in Rng(dlq) \/ \A b \in Br : out[b][i] = "ack"
AckPrefix == \A k \in DOMAIN srcAcks : srcAcks[k] = k
DlqOnce == \A j, k \in DOMAIN dlq : j # k => dlq[j] # dlq[k]
DlqOnlyRejected == \A i \in Rng(dlq) : \E b \in Br : out[b][i] = "nack"
FailLatch == fail => Len(srcAcks) < head - 1
AllAnswered == \A b \in Br : ans[b] = N
Drained == <>(AllAnswered => (head = N + 1))

Case == [n |-> N, m |-> M, tol |-> tol, srcFailAt |-> srcFailAt, dlqFailAt |-> dlqFailAt, answers |-> script,
         srcAcks |-> srcAcks, dlq |-> dlq, fail |-> fail]
EmitCase == (Emit /\ AllAnswered /\ head = N + 1) => PrintT("CASE " \o ToJson(Case))
View == <<ans, out, rem, status, head, fail, srcAcks, dlq, nacks, tol, srcFailAt, dlqFailAt, srcCalls, dlqCalls>>
=============================================================================
