--------------------------- MODULE SourcePersist ---------------------------
(* Layer B: the mechanism that stands between "the engine acknowledged position p of a source" and
   "the source plugin is told so" - pkg/connector/source.go (Ack, onPersistFlushed, deferred ack
   queue, delivery goroutine, Teardown) and pkg/connector/persister.go (batch, bundle threshold,
   timer, one transaction per flush generation, callbacks in goroutines).  One action per critical
   section.  Several connectors share one persister.

   Constants SetErrShadowed / BeginFailSilent name two behaviours the pinned snapshot had and that
   were repaired ("fix:" commits): with SetErrShadowed = TRUE a failed Set is only logged and the
   commit goes ahead (TLC then finds AckAfterDurable violated); with BeginFailSilent = TRUE a
   failed NewTransaction returns without running callbacks (TLC then finds the flush never
   completes: WaitPendingWrites blocks forever).

   ErrsGuarded names a behaviour the code still has (DESIGN.md, observation O1): onPersistFlushed reports a
   failed flush with a plain send on the connector's error channel.  The node reads that channel only while
   its run loop is alive (the v2 engine never reads it); with ErrsGuarded = FALSE - the code - a failed flush
   whose error nobody reads blocks the callback goroutine for good, and TLC refutes CallbacksReturn (what
   WaitPendingWrites / Persister.Wait wait for).  ErrsGuarded = TRUE is the send that gives up when nobody
   listens.                                                                                        *)
EXTENDS Naturals, Sequences, FiniteSets, SequencesExt, TLC

CONSTANTS Conn, MaxAcks, Threshold, MaxSendFails, AllowStoreFaults, SetErrShadowed, BeginFailSilent,
          AllowTeardown, ErrsGuarded, AllowNodeExit

VARIABLES
  acked,     \* [c -> number of engine acks so far]; positions are 1..acked[c], in read order
  pend,      \* [c -> Seq(position)]   pendingAcks (seq = position here: one ack per position)
  batch,     \* [c -> position or 0]   next persist batch (latest in-memory state per connector)
  bundle,    \* persists since the last flush
  fl,        \* flush in progress: [phase, b (its batch), err, todo (connectors still to Set)]
  cbs,       \* callbacks spawned and not yet run: set of [c, pos, err]
  store,     \* [c -> durable position]
  dq,        \* [c -> Seq(position)]   deferredAckQueue
  delivered, \* [c -> Seq(position)]   what the plugin has been told, in order
  td,        \* [c -> teardown pc]: "run" | "flush" | "closed" | "cancelled" | "done"
  failed,    \* [c -> BOOLEAN]         an error reached the connector's error channel
  sendFails, \* transient send failures still to inject
  lostCb,    \* a flush ended without running its callbacks (only with BeginFailSilent)
  reading    \* [c -> BOOLEAN]  the connector's node is reading its error channel (its run loop is alive)
vars == <<acked, pend, batch, bundle, fl, cbs, store, dq, delivered, td, failed, sendFails, lostCb, reading>>

Idle == [phase |-> "idle", b |-> [c \in Conn |-> 0], err |-> FALSE, todo |-> {}, bad |-> {}]

Init ==
  /\ acked = [c \in Conn |-> 0] /\ pend = [c \in Conn |-> <<>>]
  /\ batch = [c \in Conn |-> 0] /\ bundle = 0 /\ fl = Idle /\ cbs = {}
  /\ store = [c \in Conn |-> 0] /\ dq = [c \in Conn |-> <<>>]
  /\ delivered = [c \in Conn |-> <<>>] /\ td = [c \in Conn |-> "run"]
  /\ failed = [c \in Conn |-> FALSE] /\ sendFails = MaxSendFails /\ lostCb = FALSE
  /\ reading = [c \in Conn |-> TRUE]

BatchEmpty == \A c \in Conn : batch[c] = 0

(* Source.Ack: state, pendingAcks, Persister.Persist (blocks while a flush it must trigger is
   still writing - modelled by the guard) *)
EngineAck(c) ==
  /\ td[c] = "run" /\ acked[c] < MaxAcks /\ ~failed[c]
  /\ bundle < Threshold
  /\ acked' = [acked EXCEPT ![c] = @ + 1]
  /\ pend' = [pend EXCEPT ![c] = Append(@, acked[c] + 1)]
  /\ batch' = [batch EXCEPT ![c] = acked[c] + 1]
  /\ bundle' = bundle + 1
  /\ UNCHANGED <<fl, cbs, store, dq, delivered, td, failed, sendFails, lostCb, reading>>

(* triggerFlush: bundle threshold reached, the debounce timer fired, or a forced flush *)
StartFlush ==
  /\ fl.phase = "idle" /\ ~BatchEmpty
  /\ fl' = [phase |-> "begin", b |-> batch, err |-> FALSE, todo |-> {c \in Conn : batch[c] # 0}, bad |-> {}]
  /\ batch' = [c \in Conn |-> 0] /\ bundle' = 0
  /\ UNCHANGED <<acked, pend, cbs, store, dq, delivered, td, failed, sendFails, lostCb, reading>>

SpawnCallbacks(err) == {[c |-> c, pos |-> fl.b[c], err |-> err] : c \in {x \in Conn : fl.b[x] # 0}}

TxBegin(ok) ==
  /\ fl.phase = "begin"
  /\ IF ok THEN fl' = [fl EXCEPT !.phase = "set"] /\ UNCHANGED <<cbs, lostCb, reading>>
     ELSE /\ AllowStoreFaults
          /\ IF BeginFailSilent
               THEN fl' = Idle /\ lostCb' = TRUE /\ UNCHANGED cbs
               ELSE fl' = Idle /\ cbs' = cbs \cup SpawnCallbacks(TRUE) /\ UNCHANGED lostCb
  /\ UNCHANGED <<acked, pend, batch, bundle, store, dq, delivered, td, failed, sendFails, reading>>

SetStep(c, ok) ==
  /\ fl.phase = "set" /\ c \in fl.todo
  /\ (ok \/ AllowStoreFaults)
  /\ fl' = [fl EXCEPT !.todo = @ \ {c},
                      !.bad = IF ok THEN @ ELSE @ \cup {c},
                      !.err = IF ok \/ SetErrShadowed THEN @ ELSE TRUE,
                      !.phase = IF fl.todo = {c} THEN "commit" ELSE "set"]
  /\ UNCHANGED <<acked, pend, batch, bundle, cbs, store, dq, delivered, td, failed, sendFails, lostCb, reading>>

(* Commit (skipped - the transaction is discarded - when a Set failed and the error is not
   shadowed); then one callback goroutine per connector of the batch *)
Commit(ok) ==
  /\ fl.phase = "commit"
  /\ (ok \/ AllowStoreFaults \/ fl.err)
  /\ LET success == ok /\ ~fl.err IN
     /\ store' = IF success
                   THEN [c \in Conn |-> IF fl.b[c] # 0 /\ c \notin fl.bad THEN fl.b[c] ELSE store[c]]
                   ELSE store
     /\ cbs' = cbs \cup SpawnCallbacks(~success)
  /\ fl' = Idle
  /\ UNCHANGED <<acked, pend, batch, bundle, dq, delivered, td, failed, sendFails, lostCb, reading>>

(* onPersistFlushed, run by one goroutine per connector of the flushed batch, in any order *)
Callback(cb) ==
  /\ cb \in cbs
  \* a failed flush is reported on the error channel: the send completes only if the node is reading it - or,
  \* with ErrsGuarded, is abandoned when nobody is
  /\ (cb.err => (reading[cb.c] \/ ErrsGuarded))
  /\ cbs' = cbs \ {cb}
  /\ IF cb.err
       THEN failed' = [failed EXCEPT ![cb.c] = reading[cb.c] \/ @] /\ UNCHANGED <<pend, dq>>
       ELSE LET c == cb.c
                due == SelectSeq(pend[c], LAMBDA p : p <= cb.pos)
                rest == SelectSeq(pend[c], LAMBDA p : p > cb.pos) IN
            /\ pend' = [pend EXCEPT ![c] = rest]
            /\ dq' = [dq EXCEPT ![c] = IF td[c] \in {"run", "flush"} THEN @ \o due ELSE @]
            /\ UNCHANGED failed
  /\ UNCHANGED <<acked, batch, bundle, fl, store, delivered, td, sendFails, lostCb, reading>>

(* the delivery goroutine: one queue entry at a time, transient failures are retried *)
Deliver(c) ==
  /\ dq[c] # <<>> /\ td[c] \in {"run", "flush", "closed"}
  /\ delivered' = [delivered EXCEPT ![c] = Append(@, Head(dq[c]))]
  /\ dq' = [dq EXCEPT ![c] = Tail(@)]
  /\ UNCHANGED <<acked, pend, batch, bundle, fl, cbs, store, td, failed, sendFails, lostCb, reading>>

SendFail(c) ==
  /\ dq[c] # <<>> /\ td[c] \in {"run", "flush", "closed"} /\ sendFails > 0
  /\ sendFails' = sendFails - 1
  /\ UNCHANGED <<acked, pend, batch, bundle, fl, cbs, store, dq, delivered, td, failed, lostCb, reading>>

(* Source.Teardown: force a flush and wait for it (bounded), close the deferred queue, drain it
   (bounded), cancel the stream, tear the plugin down *)
TdBegin(c) ==
  /\ AllowTeardown /\ td[c] = "run"
  /\ td' = [td EXCEPT ![c] = "flush"]
  /\ UNCHANGED <<acked, pend, batch, bundle, fl, cbs, store, dq, delivered, failed, sendFails, lostCb, reading>>

\* the wait for the final flush ended (completed, or its 10 s budget expired): close the queue
TdClose(c) ==
  /\ td[c] = "flush"
  /\ td' = [td EXCEPT ![c] = "closed"]
  /\ UNCHANGED <<acked, pend, batch, bundle, fl, cbs, store, dq, delivered, failed, sendFails, lostCb, reading>>

\* the drain ended (queue empty, or budget expired): cancel the stream - undelivered entries are dropped
TdCancel(c) ==
  /\ td[c] = "closed"
  /\ td' = [td EXCEPT ![c] = "done"]
  /\ dq' = [dq EXCEPT ![c] = <<>>]
  /\ UNCHANGED <<acked, pend, batch, bundle, fl, cbs, store, delivered, failed, sendFails, lostCb, reading>>

\* the node's run loop ends (the pipeline is going down for another reason; in the v2 engine nobody reads at all)
NodeExit(c) ==
  /\ AllowNodeExit /\ reading[c]
  /\ reading' = [reading EXCEPT ![c] = FALSE]
  /\ UNCHANGED <<acked, pend, batch, bundle, fl, cbs, store, dq, delivered, td, failed, sendFails, lostCb>>

Next ==
  \/ \E c \in Conn : NodeExit(c)
  \/ \E c \in Conn : EngineAck(c) \/ Deliver(c) \/ SendFail(c) \/ TdBegin(c) \/ TdClose(c) \/ TdCancel(c)
  \/ StartFlush
  \/ \E ok \in BOOLEAN : TxBegin(ok) \/ Commit(ok)
  \/ \E c \in Conn, ok \in BOOLEAN : SetStep(c, ok)
  \/ \E cb \in cbs : Callback(cb)

Fair ==
  /\ WF_vars(StartFlush) /\ WF_vars(TxBegin(TRUE)) /\ WF_vars(Commit(TRUE))
  /\ \A c \in Conn : WF_vars(SetStep(c, TRUE)) /\ WF_vars(Deliver(c)) /\ WF_vars(EngineAck(c))
  /\ WF_vars(\E cb \in cbs : Callback(cb))
Spec == Init /\ [][Next]_vars /\ Fair

(* ---- C02 on the mechanism ---- *)
Rng(s) == {s[k] : k \in DOMAIN s}
AckAfterDurable == \A c \in Conn : \A p \in Rng(delivered[c]) : store[c] >= p
StoreMonotone == [][\A c \in Conn : store'[c] >= store[c]]_vars
\* C04 through the persister: what the plugin hears is a prefix of what the engine acknowledged
DeliveredInOrder == \A c \in Conn : \A k \in DOMAIN delivered[c] : delivered[c][k] = k
NoLostCallback == ~lostCb
\* with a store that responds and no teardown, every engine ack reaches the plugin
AllDelivered == \A c \in Conn : Len(delivered[c]) = MaxAcks
EventuallyDelivered == <>(AllDelivered \/ \E c \in Conn : failed[c])
\* every callback a flush spawned returns (WaitPendingWrites / Persister.Wait return)
CallbacksReturn == []<>(cbs = {})
=============================================================================
