------------------------------ MODULE ProvInit ------------------------------
(* Boot-time reconciliation of the pipelines directory (pkg/provisioning/service.go, Service.Init):
   what a server start makes of the stored pipelines, given the configuration files it finds.

   This grows the specification beyond the listed properties (DESIGN 13); the part of it that IS C15 - a file
   entry is an import "from any previously imported state": it converges to the configuration, a second boot
   with the same files changes nothing, an entry that cannot be provisioned leaves the stored pipeline as it
   was, and a connector that persists keeps its position - is marked (C15) below and is what the check of C15
   counts as a verdict.  The rest (what is deleted, what is skipped, which errors are reported) is conformance
   of the code to this specification.

   ABSTRACT STATE.  stored[id] is None or
       [by   : "config" | "api"    who provisioned the pipeline (pipeline.ProvisionedBy),
        cls  : the configuration class it holds (Classes; same connector ids and types in every class, other
               settings / name / processors),
        born : the step at which THIS incarnation was created.  The driver gives the source connector of a
               new pipeline the position "pos-<id>-<born>" right after the step that created it, so an update
               in place keeps the label and a delete-and-recreate loses it (C15: position kept)]

   ONE BOOT  Boot(f), f[id] \in FileKinds - what the directory says about id:
       "none"   no file mentions it
       c        exactly one valid entry of class c
       "bad"    exactly one entry that fails validation (config.Validate)
       "dup"    two entries with this id (Init skips ALL of them: ErrDuplicatedPipelineID)
       "lost"   its entry sits in a file that does not parse (the parser returns no pipelines for that file)
   The code, step by step:  parse every file (a failure is collected, the file contributes nothing) -> drop every
   duplicated id, but remember it as "seen" -> drop every entry whose stored pipeline was not provisioned by a
   config file (ErrNotProvisionedByConfig), NOT remembered as seen (nothing deletes an api pipeline anyway) ->
   provision the rest one by one, each in its own transaction, remembered as seen whether or not it worked ->
   delete every stored config-provisioned pipeline that was not seen.
   NAMED DEVIATION (UnparsableDeletes = TRUE is the code): an id whose file does not parse was never seen, so a
   pipeline provisioned from that file on an earlier boot is DELETED - with the positions of its connectors -
   because of a syntax error in its file.  Not a statement of any listed property; recorded in DESIGN.md as
   observation O2.

   TLC explores every history of Boot / ApiCreate steps within the bounds, checks the invariants below and, with
   Emit, prints every complete history with the expected view after each step (cases for harness/drivers/provinit,
   which replays them on the REAL provisioning.Service over real pipeline / connector / processor services: every
   Boot builds fresh services on the durable store content, as a restarted server does).                     *)
EXTENDS Naturals, Sequences, FiniteSets, TLC, Json

CONSTANTS Ids,                \* pipeline ids
          Classes,            \* valid configuration classes
          MaxSteps,           \* length of a history
          MaxApi,             \* ApiCreate steps per history
          FileKindsUsed,      \* subset of FileKinds explored
          UnparsableDeletes,  \* TRUE: the code (see above)
          Emit

None == [by |-> "-", cls |-> "-", born |-> 0]
FileKinds == {"none", "bad", "dup", "lost"} \cup Classes

VARIABLES stored, hist, errs, nApi
vars == <<stored, hist, errs, nApi>>

Init == /\ stored = [i \in Ids |-> None]
        /\ hist = <<>> /\ errs = {} /\ nApi = 0

Step == Len(hist) + 1

\* ------------------------------------------------------------------ one boot
Seen(f, s, i) == \/ f[i] = "dup"
                 \/ (f[i] \in Classes \cup {"bad"} /\ s[i].by # "api")
                 \/ (f[i] = "lost" /\ ~UnparsableDeletes)

AfterBoot(f, s, st) ==
  [i \in Ids |->
     IF s[i].by = "api" THEN s[i]                                        \* never touched, whatever the files say
     ELSE IF f[i] \in Classes THEN [by |-> "config", cls |-> f[i],
                                    born |-> IF s[i] = None THEN st ELSE s[i].born]   \* update in place
     ELSE IF Seen(f, s, i) THEN s[i]                                     \* skipped: stays as it was
     ELSE None]                                                          \* not seen: deleted (if it was there)

ErrsOf(f, s) ==
  {"duplicate" : i \in {j \in Ids : f[j] = "dup"}}
  \cup {"notconfig" : i \in {j \in Ids : f[j] \in Classes \cup {"bad"} /\ s[j].by = "api"}}
  \cup {"invalid" : i \in {j \in Ids : f[j] = "bad" /\ s[j].by # "api"}}
  \cup {"parse" : i \in {j \in Ids : f[j] = "lost"}}

View(s) == [i \in Ids |-> s[i]]

Boot(f) ==
  /\ Len(hist) < MaxSteps
  /\ LET s2 == AfterBoot(f, stored, Step) IN
       /\ stored' = s2
       /\ errs' = ErrsOf(f, stored)
       /\ hist' = Append(hist, [op |-> "boot", files |-> f, errs |-> ErrsOf(f, stored), view |-> View(s2),
                                c15 |-> [i \in Ids |-> f[i] \in Classes \cup {"bad"} /\ stored[i].by # "api"]])
  /\ UNCHANGED nApi

\* a pipeline created through the API (provisioning.Service.Import tags it ProvisionTypeAPI) while the server runs
ApiCreate(i, c) ==
  /\ Len(hist) < MaxSteps /\ nApi < MaxApi /\ stored[i] = None
  /\ LET s2 == [stored EXCEPT ![i] = [by |-> "api", cls |-> c, born |-> Step]] IN
       /\ stored' = s2
       /\ hist' = Append(hist, [op |-> "api", id |-> i, cls |-> c, errs |-> {}, view |-> View(s2),
                                c15 |-> [j \in Ids |-> FALSE]])
  /\ errs' = {} /\ nApi' = nApi + 1

Next == \/ \E f \in [Ids -> FileKindsUsed] : Boot(f)
        \/ \E i \in Ids, c \in Classes : ApiCreate(i, c)
Spec == Init /\ [][Next]_vars

\* ------------------------------------------------------------------ properties of the specification itself
\* (C15) a valid entry for a pipeline the provisioning service may touch converges to the entry
Converges == hist # <<>> /\ hist[Len(hist)].op = "boot" =>
               LET h == hist[Len(hist)] IN
               \A i \in Ids : (h.files[i] \in Classes /\ h.c15[i]) => (stored[i].by = "config" /\ stored[i].cls = h.files[i])
\* (C15) booting twice with the same files: the second boot changes nothing
Idempotent == [][(/\ hist # <<>> /\ Len(hist') = Len(hist) + 1
                  /\ hist[Len(hist)].op = "boot" /\ hist'[Len(hist')].op = "boot"
                  /\ hist'[Len(hist')].files = hist[Len(hist)].files) => stored' = stored]_vars
\* (C15) an entry that cannot be provisioned, and an update in place, never lose the incarnation (its positions)
KeepsIncarnation == [][\A i \in Ids : (stored[i] # None /\ stored'[i] # None) => stored'[i].born = stored[i].born]_vars
\* beyond the list: a pipeline created through the API is never changed or deleted by a boot
ApiUntouched == [][\A i \in Ids : stored[i].by = "api" => stored'[i] = stored[i]]_vars
\* beyond the list: a config-provisioned pipeline survives a boot only if the directory still names it
DeletedOnlyIfUnnamed == [][\A i \in Ids : (stored[i].by = "config" /\ stored'[i] = None) =>
                              hist'[Len(hist')].files[i] \in {"none"} \cup (IF UnparsableDeletes THEN {"lost"} ELSE {})]_vars

EmitCase == (Emit /\ Len(hist) = MaxSteps) => PrintT("CASE " \o ToJson([steps |-> hist]))
=============================================================================
