--------------------------- MODULE LiveApplyTrace ---------------------------
(* Trace validation for C16 (live apply, provisioning.ApplyPlanLive) on traces of the real
   provisioning + lifecycle services with records flowing:
     StaleRefused        a plan whose hash no longer matches is refused and changes nothing
     AuthRequired        a running pipeline is not touched without operator authorisation
     DrainedBeforeMutate the stored configuration of a running pipeline is written by the apply only
                         after the run has ended (every plugin torn down) and the acknowledged
                         positions are durable - unless the plan is processor-only (in-place swap)
     AppliedIsDesired    a successful apply leaves exactly the desired configuration
     FailedConsistent    a refused / failed apply leaves the old or the new complete configuration
   Continuation without a skipped record (the pipeline resumes from its durable position) and the
   in-place swap at a record boundary are decided on the same traces by DataPathTrace.tla and
   LifecycleTrace.tla.                                                                          *)
EXTENDS Naturals, Integers, Sequences, SequencesExt, FiniteSets, Json, TLC

CONSTANT TraceFile
Trace == ndJsonDeserialize(TraceFile)
VARIABLES l, st, viol
vars == <<l, st, viol>>
Ev == Trace[l]
IsEvent(k) == l <= Len(Trace) /\ Ev.ev = k /\ l' = l + 1

Known == {"Reset", "Planned", "ApplyCall", "ApplyRet", "Emit", "Proc", "TxTag", "StoreSet", "TxCommit", "Open", "Teardown", "SrcAck", "Durable",
          "End", "Hang", "Panic", "HarnessError", "ChildTimeout"}

Empty == [scen |-> "", srcs |-> {}, feats |-> {}, live |-> <<>>, acked |-> <<>>, stored |-> <<>>, provTx |-> {},
          plans |-> <<>>,          \* pid -> [empty, live, epoch]
          epoch |-> 0,             \* number of non-empty plans applied successfully so far
          applied |-> <<>>,        \* what each of them was about (sets of configuration parts), in order
          exp |-> <<>>,            \* processor -> configuration generation that is in force (1 if absent); "?" once unknown
          calls |-> 0,             \* ApplyCalls so far
          readAt |-> <<>>,         \* record -> [calls, exp] when it was read with no apply in flight
          open |-> {},             \* applies in flight: aid -> [...]
          cur |-> <<>>,            \* aid -> record of the apply in flight
          tearsDuring |-> <<>>,    \* aid -> number of source teardowns seen while it was in flight
          bad |-> FALSE]
Init == l = 1 /\ st = Empty /\ viol = {}
\* what is rendered as a string: the records of one scenario form a set, and TLC cannot compare values of different types
V(inv, what) == [inv |-> inv, at |-> Ev.n, scen |-> st.scen, what |-> ToString(what)]
Add(cond, inv, what) == IF cond THEN {} ELSE {V(inv, what)}
Get(f, k, d) == IF k \in DOMAIN f THEN f[k] ELSE d
Put(f, k, v) == IF k \in DOMAIN f THEN [f EXCEPT ![k] = v] ELSE f @@ (k :> v)

AllDown == \A k \in DOMAIN st.live : st.live[k] = 0
PositionsDurable == \A s \in st.srcs : Get(st.acked, s, 0) = 0 \/ Get(st.stored, s, 0) >= Get(st.acked, s, 0)

Reset ==
  /\ IsEvent("Reset")
  /\ (viol = {} \/ PrintT("VIOLS " \o ToJson(viol)))
  /\ viol' = {}
  /\ st' = [Empty EXCEPT !.scen = Ev.scenario, !.srcs = ToSet(Ev.srcs), !.feats = ToSet(Ev.features)]

Planned ==
  /\ IsEvent("Planned")
  /\ st' = [st EXCEPT !.plans = Put(@, Ev.pid, [empty |-> Ev.empty, live |-> Ev.live_eligible, epoch |-> st.epoch,
                                                 gens |-> IF "gens" \in DOMAIN Ev THEN Ev.gens ELSE <<>>,
                                                 touches |-> IF "touches" \in DOMAIN Ev THEN ToSet(Ev.touches) ELSE {"?"}])]
  /\ UNCHANGED viol

ApplyCall ==
  /\ IsEvent("ApplyCall")
  /\ st' = [st EXCEPT !.cur = Put(@, Ev.aid, [pid |-> Ev.pid, allow |-> Ev.allow, running |-> Ev.reported \in {"Running", "Recovering"}]),
                      !.tearsDuring = Put(@, Ev.aid, 0), !.calls = @ + 1]
  /\ UNCHANGED viol

InFlight == DOMAIN st.cur

ApplyRet ==
  /\ IsEvent("ApplyRet")
  /\ LET a == st.cur[Ev.aid]
         p == st.plans[a.pid]
         code == IF "code" \in DOMAIN Ev.err THEN Ev.err.code ELSE ""
         touched == Get(st.tearsDuring, Ev.aid, 0) > 0 IN
     /\ st' = [st EXCEPT !.cur = [k \in DOMAIN @ \ {Ev.aid} |-> @[k]],
                         !.epoch = IF Ev.err.nil /\ ~p.empty THEN @ + 1 ELSE @,
                         !.applied = IF Ev.err.nil /\ ~p.empty THEN Append(@, p.touches) ELSE @,
                         \* which processor configurations are in force from now on: the desired ones after an apply
                         \* that left the new configuration, the previous ones after one that left the old one
                         !.exp = IF Ev.exported = "new" THEN [k \in DOMAIN p.gens |-> p.gens[k]]
                                 ELSE IF Ev.exported = "old" THEN @ ELSE [k \in {"?"} |-> 0]]
     /\ viol' = viol
          \* a plan is applied only if it still matches the current state.  A desired configuration is a whole
          \* configuration: once an INDEPENDENT change (about other parts of the configuration) has been applied
          \* since this plan was computed, the plan no longer matches (applying it would revert that change) and
          \* has to be refused as stale - also when the two applies ran concurrently.  (Changes about the same part
          \* may coincide with the recomputed plan, e.g. deleting a processor another apply has just reconfigured.)
          \cup (IF Ev.err.nil /\ ~p.empty
                  THEN Add(\A k \in DOMAIN st.applied : k <= p.epoch \/ st.applied[k] \cap p.touches # {} \/ "?" \in p.touches,
                           "StaleRefused", <<"a stale plan was applied", "planned at", p.epoch, "now", st.epoch>>)
                  ELSE {})
          \cup (IF code = "provisioning.plan_stale"
                  THEN Add("concurrent-apply" \in st.feats \/ (Ev.exported = "old" /\ ~touched), "StaleRefused", <<Ev.exported, touched>>)
                  ELSE {})
          \cup (IF a.running /\ ~a.allow /\ ~p.empty /\ code # "provisioning.plan_stale"
                  THEN Add(code = "provisioning.live_apply_unauthorized" /\ Ev.exported = "old" /\ ~touched,
                           "AuthRequired", <<code, Ev.exported, touched>>)
                  ELSE {})
          \* ... whenever it became running: an apply without authorisation never stops a run (no source is torn
          \* down while it is in flight) - also when the pipeline was started between its checks
          \cup (IF ~a.allow /\ ~p.empty
                  THEN Add(~touched, "AuthRequired", <<"a run was stopped by an apply without authorisation", code, Ev.exported>>)
                  ELSE {})
          \cup (IF Ev.err.nil /\ "concurrent-apply" \notin st.feats
                  THEN Add(Ev.exported = "new", "AppliedIsDesired", Ev.exported) ELSE {})
          \cup (IF ~Ev.err.nil /\ "concurrent-apply" \notin st.feats
                  THEN Add(Ev.exported \in {"old", "new"}, "FailedConsistent", Ev.exported) ELSE {})

(* "a refused or failed apply leaves configuration and the running pipeline unchanged" / a successful one leaves
   the desired configuration: a record read while no apply was in flight, and processed before the next apply is
   called, is processed by the configuration the last apply left in force. *)
ExpGen(e, proc) == IF proc \in DOMAIN e THEN e[proc] ELSE 1
Emit ==
  /\ IsEvent("Emit")
  /\ st' = IF InFlight = {} /\ "?" \notin DOMAIN st.exp
             THEN [st EXCEPT !.readAt = Put(@, <<Ev.src, Ev.idx>>, [calls |-> st.calls, exp |-> st.exp])]
             ELSE st
  /\ UNCHANGED viol
Proc ==
  /\ IsEvent("Proc")
  /\ UNCHANGED st
  /\ LET key == <<Ev.src, Ev.idx>> IN
     viol' = IF "src" \in DOMAIN Ev /\ key \in DOMAIN st.readAt /\ st.readAt[key].calls = st.calls /\ st.calls > 0
               THEN viol \cup Add(Ev.geni = ExpGen(st.readAt[key].exp, Ev.proc), "FailedConsistent",
                                  <<"processor runs another configuration than the last apply left", Ev.proc, Ev.geni,
                                    ExpGen(st.readAt[key].exp, Ev.proc)>>)
               ELSE viol

TxTag ==
  /\ IsEvent("TxTag")
  /\ st' = IF Ev.by = "prov" THEN [st EXCEPT !.provTx = @ \cup {Ev.tx}] ELSE st
  /\ UNCHANGED viol

\* the apply's transactional import takes effect at its commit: at that moment the pipeline must have been drained
\* (every plugin torn down, acknowledged positions durable) - unless the plan is processor-only (in-place swap).
\* Writes of a transaction that is discarded change nothing.
StoreSet == IsEvent("StoreSet") /\ UNCHANGED <<st, viol>>
TxCommit ==
  /\ IsEvent("TxCommit")
  /\ UNCHANGED st
  /\ IF Ev.ok /\ Ev.tx \in st.provTx /\ InFlight # {} /\ Ev.keys > 0
       THEN LET inplace == \E aid \in InFlight : st.plans[st.cur[aid].pid].live IN
            viol' = viol \cup Add(inplace \/ (AllDown /\ PositionsDurable), "DrainedBeforeMutate",
                                  <<"configuration committed", "live plugins", ~AllDown, "positions durable", PositionsDurable>>)
       ELSE UNCHANGED viol

Open ==
  /\ IsEvent("Open")
  /\ st' = IF Ev.ok THEN [st EXCEPT !.live = Put(@, Ev.key, Get(@, Ev.key, 0) + 1),
                                    !.acked = IF Ev.kind = "source" THEN Put(@, Ev.conn, 0) ELSE @]
           ELSE st
  \* the restart that is part of an apply resumes exactly at the durable position
  /\ viol' = IF Ev.ok /\ Ev.kind = "source" /\ Ev.conn \in st.srcs /\ InFlight # {} /\ "store-fault" \notin st.feats
               THEN viol \cup Add(Ev.idx = Get(st.stored, Ev.conn, 0), "ContinuesFromDurable", <<Ev.idx, Get(st.stored, Ev.conn, 0)>>)
               ELSE viol
Teardown ==
  /\ IsEvent("Teardown")
  /\ st' = [st EXCEPT !.live = IF Get(@, Ev.key, 0) > 0 THEN Put(@, Ev.key, Get(@, Ev.key, 0) - 1) ELSE @,
                      !.tearsDuring = IF Ev.kind = "source" THEN [k \in DOMAIN @ |-> IF k \in InFlight THEN @[k] + 1 ELSE @[k]] ELSE @]
  /\ UNCHANGED viol
SrcAck ==
  /\ IsEvent("SrcAck")
  /\ st' = [st EXCEPT !.acked = Put(@, Ev.src, Ev.idx)]
  /\ UNCHANGED viol
Durable ==
  /\ IsEvent("Durable")
  /\ st' = IF Ev.class = "connector" /\ Ev.id \in st.srcs /\ ~("del" \in DOMAIN Ev)
             THEN [st EXCEPT !.stored = Put(@, Ev.id, Ev.idx)] ELSE st
  /\ UNCHANGED viol
End == IsEvent("End") /\ UNCHANGED <<st, viol>>
Hang  == IsEvent("Hang")  /\ viol' = viol \cup {V("NoHang", Ev.call)} /\ UNCHANGED st
Panic == IsEvent("Panic") /\ viol' = viol \cup {V("NoPanic", Ev.stderr)} /\ UNCHANGED st
HarnessError == (IsEvent("HarnessError") \/ IsEvent("ChildTimeout")) /\ st' = [st EXCEPT !.bad = TRUE] /\ UNCHANGED viol
Other == l <= Len(Trace) /\ Ev.ev \notin Known /\ l' = l + 1 /\ UNCHANGED <<st, viol>>

Next == Reset \/ Planned \/ ApplyCall \/ ApplyRet \/ Emit \/ Proc \/ TxTag \/ StoreSet \/ TxCommit \/ Open \/ Teardown \/ SrcAck \/ Durable
        \/ End \/ Hang \/ Panic \/ HarnessError \/ Other
Spec == Init /\ [][Next]_vars
WellFormed == ~st.bad
TraceAccepted == TLCGet("stats").diameter - 1 = Len(Trace)
=============================================================================
