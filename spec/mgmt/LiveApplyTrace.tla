--------------------------- MODULE LiveApplyTrace ---------------------------
(* Trace validation for C16 (live apply, provisioning.ApplyPlanLive) on traces of the real
   provisioning + lifecycle services with records flowing:
     StaleRefused        a plan whose hash no longer matches is refused and changes nothing
     AuthRequired        a running pipeline is not touched without operator authorisation
     DrainedBeforeMutate the stored configuration of a running pipeline is written by the apply only
                         after the run has ended (every plugin torn down) and the acknowledged
                         positions are durable - unless the plan is processor-only (in-place swap)
     AppliedIsDesired    a successful apply leaves exactly the desired configuration
     FailedConsistent    a refused / failed apply leaves the old or the new complete configuration
   Continuation without a skipped record (the pipeline resumes from its durable position) and the
   in-place swap at a record boundary are decided on the same traces by DataPathTrace.tla and
   LifecycleTrace.tla.                                                                          *)
EXTENDS Naturals, Integers, Sequences, SequencesExt, FiniteSets, Json, TLC

CONSTANT TraceFile
Trace == ndJsonDeserialize(TraceFile)
VARIABLES l, st, viol
vars == <<l, st, viol>>
Ev == Trace[l]
IsEvent(k) == l <= Len(Trace) /\ Ev.ev = k /\ l' = l + 1

Known == {"Reset", "Planned", "ApplyCall", "ApplyRet", "TxTag", "StoreSet", "Open", "Teardown", "SrcAck", "Durable",
          "End", "Hang", "Panic", "HarnessError", "ChildTimeout"}

Empty == [scen |-> "", srcs |-> {}, feats |-> {}, live |-> <<>>, acked |-> <<>>, stored |-> <<>>, provTx |-> {},
          plans |-> <<>>,          \* pid -> [empty, live]
          open |-> {},             \* applies in flight: aid -> [...]
          cur |-> <<>>,            \* aid -> record of the apply in flight
          tearsDuring |-> <<>>,    \* aid -> number of source teardowns seen while it was in flight
          bad |-> FALSE]
Init == l = 1 /\ st = Empty /\ viol = {}
V(inv, what) == [inv |-> inv, at |-> Ev.n, scen |-> st.scen, what |-> what]
Add(cond, inv, what) == IF cond THEN {} ELSE {V(inv, what)}
Get(f, k, d) == IF k \in DOMAIN f THEN f[k] ELSE d
Put(f, k, v) == IF k \in DOMAIN f THEN [f EXCEPT ![k] = v] ELSE f @@ (k :> v)

AllDown == \A k \in DOMAIN st.live : st.live[k] = 0
PositionsDurable == \A s \in st.srcs : Get(st.acked, s, 0) = 0 \/ Get(st.stored, s, 0) >= Get(st.acked, s, 0)

Reset ==
  /\ IsEvent("Reset")
  /\ (viol = {} \/ PrintT("VIOLS " \o ToJson(viol)))
  /\ viol' = {}
  /\ st' = [Empty EXCEPT !.scen = Ev.scenario, !.srcs = ToSet(Ev.srcs), !.feats = ToSet(Ev.features)]

Planned ==
  /\ IsEvent("Planned")
  /\ st' = [st EXCEPT !.plans = Put(@, Ev.pid, [empty |-> Ev.empty, live |-> Ev.live_eligible])]
  /\ UNCHANGED viol

ApplyCall ==
  /\ IsEvent("ApplyCall")
  /\ st' = [st EXCEPT !.cur = Put(@, Ev.aid, [pid |-> Ev.pid, allow |-> Ev.allow, running |-> Ev.reported \in {"Running", "Recovering"}]),
                      !.tearsDuring = Put(@, Ev.aid, 0)]
  /\ UNCHANGED viol

InFlight == DOMAIN st.cur

ApplyRet ==
  /\ IsEvent("ApplyRet")
  /\ LET a == st.cur[Ev.aid]
         p == st.plans[a.pid]
         code == IF "code" \in DOMAIN Ev.err THEN Ev.err.code ELSE ""
         touched == Get(st.tearsDuring, Ev.aid, 0) > 0 IN
     /\ st' = [st EXCEPT !.cur = [k \in DOMAIN @ \ {Ev.aid} |-> @[k]]]
     /\ viol' = viol
          \cup (IF code = "provisioning.plan_stale"
                  THEN Add("concurrent-apply" \in st.feats \/ (Ev.exported = "old" /\ ~touched), "StaleRefused", <<Ev.exported, touched>>)
                  ELSE {})
          \cup (IF a.running /\ ~a.allow /\ ~p.empty /\ code # "provisioning.plan_stale"
                  THEN Add(code = "provisioning.live_apply_unauthorized" /\ Ev.exported = "old" /\ ~touched,
                           "AuthRequired", <<code, Ev.exported, touched>>)
                  ELSE {})
          \cup (IF Ev.err.nil /\ "concurrent-apply" \notin st.feats
                  THEN Add(Ev.exported = "new", "AppliedIsDesired", Ev.exported) ELSE {})
          \cup (IF ~Ev.err.nil /\ "concurrent-apply" \notin st.feats
                  THEN Add(Ev.exported \in {"old", "new"}, "FailedConsistent", Ev.exported) ELSE {})

TxTag ==
  /\ IsEvent("TxTag")
  /\ st' = IF Ev.by = "prov" THEN [st EXCEPT !.provTx = @ \cup {Ev.tx}] ELSE st
  /\ UNCHANGED viol

\* a configuration write of the apply's transactional import
StoreSet ==
  /\ IsEvent("StoreSet")
  /\ UNCHANGED st
  /\ IF Ev.tx \in st.provTx /\ InFlight # {}
       THEN LET inplace == \E aid \in InFlight : st.plans[st.cur[aid].pid].live IN
            viol' = viol \cup Add(inplace \/ (AllDown /\ PositionsDurable), "DrainedBeforeMutate",
                                  <<Ev.class, Ev.id, "live plugins", ~AllDown, "positions durable", PositionsDurable>>)
       ELSE UNCHANGED viol

Open ==
  /\ IsEvent("Open")
  /\ st' = IF Ev.ok THEN [st EXCEPT !.live = Put(@, Ev.key, Get(@, Ev.key, 0) + 1),
                                    !.acked = IF Ev.kind = "source" THEN Put(@, Ev.conn, 0) ELSE @]
           ELSE st
  \* the restart that is part of an apply resumes exactly at the durable position
  /\ viol' = IF Ev.ok /\ Ev.kind = "source" /\ Ev.conn \in st.srcs /\ InFlight # {} /\ "store-fault" \notin st.feats
               THEN viol \cup Add(Ev.idx = Get(st.stored, Ev.conn, 0), "ContinuesFromDurable", <<Ev.idx, Get(st.stored, Ev.conn, 0)>>)
               ELSE viol
Teardown ==
  /\ IsEvent("Teardown")
  /\ st' = [st EXCEPT !.live = IF Get(@, Ev.key, 0) > 0 THEN Put(@, Ev.key, Get(@, Ev.key, 0) - 1) ELSE @,
                      !.tearsDuring = IF Ev.kind = "source" THEN [k \in DOMAIN @ |-> IF k \in InFlight THEN @[k] + 1 ELSE @[k]] ELSE @]
  /\ UNCHANGED viol
SrcAck ==
  /\ IsEvent("SrcAck")
  /\ st' = [st EXCEPT !.acked = Put(@, Ev.src, Ev.idx)]
  /\ UNCHANGED viol
Durable ==
  /\ IsEvent("Durable")
  /\ st' = IF Ev.class = "connector" /\ Ev.id \in st.srcs /\ ~("del" \in DOMAIN Ev)
             THEN [st EXCEPT !.stored = Put(@, Ev.id, Ev.idx)] ELSE st
  /\ UNCHANGED viol
End == IsEvent("End") /\ UNCHANGED <<st, viol>>
Hang  == IsEvent("Hang")  /\ viol' = viol \cup {V("NoHang", Ev.call)} /\ UNCHANGED st
Panic == IsEvent("Panic") /\ viol' = viol \cup {V("NoPanic", Ev.stderr)} /\ UNCHANGED st
HarnessError == (IsEvent("HarnessError") \/ IsEvent("ChildTimeout")) /\ st' = [st EXCEPT !.bad = TRUE] /\ UNCHANGED viol
Other == l <= Len(Trace) /\ Ev.ev \notin Known /\ l' = l + 1 /\ UNCHANGED <<st, viol>>

Next == Reset \/ Planned \/ ApplyCall \/ ApplyRet \/ TxTag \/ StoreSet \/ Open \/ Teardown \/ SrcAck \/ Durable
        \/ End \/ Hang \/ Panic \/ HarnessError \/ Other
Spec == Init /\ [][Next]_vars
WellFormed == ~st.bad
TraceAccepted == TLCGet("stats").diameter - 1 = Len(Trace)
=============================================================================
