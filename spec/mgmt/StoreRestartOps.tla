--------------------------- MODULE StoreRestartOps ---------------------------
(* The oracle of property C17, shared by the class-level model (StoreRestart.tla) and the validation
   of recorded traces (StoreRestartTrace.tla): a restart is the identity on every stored field, with
   one documented normalisation.                                                                *)

\* what a restarted server holds for a field that was stored with value / class c:
\* a Running pipeline is found again as SystemStopped, i.e. "to be resumed"; everything else as stored
LoadClass(f, c) == IF f = "status" /\ c = "running" THEN "sysstopped" ELSE c

\* the lifecycle service's Init then starts exactly the pipelines found "to be resumed"
ResumeClass(f, c) == IF f = "status" /\ c = "sysstopped" THEN "running" ELSE c
=============================================================================
