--------------------------- MODULE OrchestratorOps ---------------------------
(* Vocabulary of the management plane (property C14): the abstract entity maps, the operations of
   the orchestrator API with their refusal rules, the full effect of each operation, and the
   consistency predicates.  Pure operators only - shared by the state machine Orchestrator.tla
   (model checking, generation of histories) and by OrchestratorTrace.tla (validation of traces
   recorded from the real orchestrator).

   An abstract management state is a record  m = [pl, cn, pr]  of three functions keyed by id:
     pl[p] = [name, cfg, dlq, conns (sequence of connector ids), procs (sequence of processor ids),
              status ("stopped" | "running" | "degraded" | "sysstopped"), prov ("api" | "config")]
     cn[c] = [pipeline, type ("src" | "dst"), plugin, cfg, procs (sequence), prov]
     pr[r] = [ptype ("pipeline" | "connector"), parent, plugin, cfg, prov]
   No internal identifier of the implementation appears here.

   An operation is a record [k, id, t, name, cfg, plug, typ, f]:
     k     kind: pl.create pl.update pl.delete pl.dlq cn.create cn.update cn.delete
                 pr.create pr.update pr.delete      (the management API)
                 env.status env.provision           (environment: lifecycle status change, a
                                                     pipeline provisioned from a config file)
     id    the id a successful create assigns (creation order), "" otherwise
     t     the target id (pipeline / connector / processor / parent); may be unknown
     name  pipeline name (create / update), new status (env.status)
     cfg   abstract configuration value (description / settings / DLQ configuration)
     plug  plugin name (connector update, processor update)
     typ   connector type (cn.create), parent type (pr.create)
     f     injected fault: "none" | "s1".."s4" (the k-th store operation of this call fails)
           | "plugin" (the plugin lookup / validation of this call fails)                     *)
EXTENDS Integers, Sequences, FiniteSets, TLC

Rng(s) == {s[i] : i \in DOMAIN s}
Without(s, x) == SelectSeq(s, LAMBDA y : y # x)
Drop(f, x) == [y \in DOMAIN f \ {x} |-> f[y]]
Put(f, x, v) == (x :> v) @@ f
NoDup(s) == Cardinality(Rng(s)) = Len(s)

EmptyM == [pl |-> <<>>, cn |-> <<>>, pr |-> <<>>]

ApiKinds == {"pl.create", "pl.update", "pl.delete", "pl.dlq", "cn.create", "cn.update", "cn.delete",
             "pr.create", "pr.update", "pr.delete"}
EnvKinds == {"env.status", "env.provision"}

DefaultCfg == "k0"
DefaultDlq == "q0"
BadDlq == "qbad"
ProvName == "nc"       \* the name of the file-provisioned pipeline

Names(m) == {m.pl[p].name : p \in DOMAIN m.pl}

(* ---------------------------------------------------------------- owner pipeline of an entity *)
HasPl(m, p) == p \in DOMAIN m.pl
HasCn(m, c) == c \in DOMAIN m.cn
HasPr(m, r) == r \in DOMAIN m.pr

\* the pipeline a processor parent belongs to ("" if it cannot be resolved)
ParentPipeline(m, ptype, parent) ==
  IF ptype = "pipeline" THEN (IF HasPl(m, parent) THEN parent ELSE "")
  ELSE IF ptype = "connector"
    THEN (IF HasCn(m, parent) /\ HasPl(m, m.cn[parent].pipeline) THEN m.cn[parent].pipeline ELSE "")
  ELSE ""

(* ------------------------------------------------------------------------------- decisions *)
Yes(n) == [ok |-> TRUE, why |-> "", nops |-> n]
No(why, n) == [ok |-> FALSE, why |-> why, nops |-> n]

\* guards shared by every operation on something that belongs to pipeline p
PipelineGuard(m, p, n) ==
  IF ~HasPl(m, p) THEN No("notfound", n)
  ELSE IF m.pl[p].prov # "api" THEN No("immutable", n)
  ELSE IF m.pl[p].status = "running" THEN No("running", n)
  ELSE Yes(n)

(* Decide(op, m): is the fault-free call applied or refused (and why), and how many store
   operations (begin / set / commit) does the call perform.  The order of the guards follows the
   orchestrator; only ok / nops matter for the verdicts, `why` is documentation.              *)
Decide(op, m) ==
  CASE op.k = "pl.create" ->
         IF op.name = "" THEN No("name missing", 0)
         ELSE IF op.name \in Names(m) THEN No("name exists", 0)
         ELSE Yes(1)
    [] op.k = "pl.update" ->
         LET g == PipelineGuard(m, op.t, 0) IN
         IF ~g.ok THEN g
         ELSE IF op.name = "" THEN No("name missing", 0)
         ELSE IF op.name \in Names(m) /\ m.pl[op.t].name # op.name THEN No("name exists", 0)
         ELSE Yes(1)
    [] op.k = "pl.delete" ->
         LET g == PipelineGuard(m, op.t, 0) IN
         IF ~g.ok THEN g
         ELSE IF m.pl[op.t].conns # <<>> THEN No("has connectors", 0)
         ELSE IF m.pl[op.t].procs # <<>> THEN No("has processors", 0)
         ELSE Yes(1)
    [] op.k = "pl.dlq" ->
         LET g == PipelineGuard(m, op.t, 0) IN
         IF ~g.ok THEN g
         ELSE IF op.cfg = BadDlq THEN No("invalid dlq", 0)
         ELSE Yes(1)
    [] op.k = "cn.create" ->
         LET g == PipelineGuard(m, op.t, 1) IN
         IF ~g.ok THEN g
         ELSE IF op.typ \notin {"src", "dst"} THEN No("invalid type", 1)
         ELSE Yes(4)
    [] op.k = "cn.update" ->
         IF ~HasCn(m, op.t) THEN No("notfound", 1)
         ELSE IF m.cn[op.t].prov # "api" THEN No("immutable", 1)
         ELSE IF ~HasPl(m, m.cn[op.t].pipeline) THEN No("notfound", 1)
         ELSE IF m.pl[m.cn[op.t].pipeline].status = "running" THEN No("running", 1)
         ELSE Yes(3)
    [] op.k = "cn.delete" ->
         IF ~HasCn(m, op.t) THEN No("notfound", 1)
         ELSE IF m.cn[op.t].prov # "api" THEN No("immutable", 1)
         ELSE IF m.cn[op.t].procs # <<>> THEN No("has processors", 1)
         ELSE IF ~HasPl(m, m.cn[op.t].pipeline) THEN No("notfound", 1)
         ELSE IF m.pl[m.cn[op.t].pipeline].status = "running" THEN No("running", 1)
         ELSE Yes(4)
    [] op.k = "pr.create" ->
         LET p == ParentPipeline(m, op.typ, op.t) IN
         IF op.typ \notin {"pipeline", "connector"} THEN No("invalid parent type", 1)
         ELSE IF p = "" THEN No("notfound", 1)
         ELSE LET g == PipelineGuard(m, p, 1) IN IF ~g.ok THEN g ELSE Yes(4)
    [] op.k = "pr.update" ->
         IF ~HasPr(m, op.t) THEN No("notfound", 1)
         ELSE IF m.pr[op.t].prov # "api" THEN No("immutable", 1)
         ELSE LET p == ParentPipeline(m, m.pr[op.t].ptype, m.pr[op.t].parent) IN
              IF p = "" THEN No("notfound", 1)
              ELSE IF m.pl[p].status = "running" THEN No("running", 1)
              ELSE IF op.plug = "" THEN No("plugin missing", 1)
              ELSE Yes(3)
    [] op.k = "pr.delete" ->
         IF ~HasPr(m, op.t) THEN No("notfound", 1)
         ELSE IF m.pr[op.t].prov # "api" THEN No("immutable", 1)
         ELSE LET p == ParentPipeline(m, m.pr[op.t].ptype, m.pr[op.t].parent) IN
              IF p = "" THEN No("notfound", 1)
              ELSE IF m.pl[p].status = "running" THEN No("running", 1)
              ELSE Yes(4)
    [] op.k = "env.status" -> IF HasPl(m, op.t) THEN Yes(1) ELSE No("notfound", 0)
    [] op.k = "env.provision" -> Yes(0)
    [] OTHER -> No("unknown operation", 0)

\* the calls in which the failing plugin lookup makes the call fail (elsewhere it is not consulted,
\* or - deleting a connector - its failure is only logged)
PluginDecides(op) == op.k \in {"pl.dlq", "cn.create", "cn.update", "pr.create"}

(* --------------------------------------------------------------------------- full effect *)
NewPl(name, prov) == [name |-> name, cfg |-> DefaultCfg, dlq |-> DefaultDlq, conns |-> <<>>,
                      procs |-> <<>>, status |-> "stopped", prov |-> prov]
NewCn(p, typ, prov) == [pipeline |-> p, type |-> typ, plugin |-> "pa", cfg |-> DefaultCfg,
                        procs |-> <<>>, prov |-> prov]
NewPr(ptype, parent, prov) == [ptype |-> ptype, parent |-> parent, plugin |-> "fa", cfg |-> DefaultCfg,
                               prov |-> prov]

\* ids of the three entities env.provision creates are packed in op.id / op.t / op.plug
Apply(op, m) ==
  CASE op.k = "pl.create" -> [m EXCEPT !.pl = Put(@, op.id, NewPl(op.name, "api"))]
    [] op.k = "pl.update" -> [m EXCEPT !.pl[op.t].name = op.name, !.pl[op.t].cfg = op.cfg]
    [] op.k = "pl.delete" -> [m EXCEPT !.pl = Drop(@, op.t)]
    [] op.k = "pl.dlq"    -> [m EXCEPT !.pl[op.t].dlq = op.cfg]
    [] op.k = "cn.create" -> [m EXCEPT !.cn = Put(@, op.id, NewCn(op.t, op.typ, "api")),
                                       !.pl[op.t].conns = Append(@, op.id)]
    [] op.k = "cn.update" -> [m EXCEPT !.cn[op.t].plugin = op.plug, !.cn[op.t].cfg = op.cfg]
    [] op.k = "cn.delete" -> [m EXCEPT !.cn = Drop(@, op.t),
                                       !.pl[m.cn[op.t].pipeline].conns = Without(@, op.t)]
    [] op.k = "pr.create" ->
         IF op.typ = "pipeline"
           THEN [m EXCEPT !.pr = Put(@, op.id, NewPr(op.typ, op.t, "api")), !.pl[op.t].procs = Append(@, op.id)]
           ELSE [m EXCEPT !.pr = Put(@, op.id, NewPr(op.typ, op.t, "api")), !.cn[op.t].procs = Append(@, op.id)]
    [] op.k = "pr.update" -> [m EXCEPT !.pr[op.t].plugin = op.plug, !.pr[op.t].cfg = op.cfg]
    [] op.k = "pr.delete" ->
         IF m.pr[op.t].ptype = "pipeline"
           THEN [m EXCEPT !.pr = Drop(@, op.t), !.pl[m.pr[op.t].parent].procs = Without(@, op.t)]
           ELSE [m EXCEPT !.pr = Drop(@, op.t), !.cn[m.pr[op.t].parent].procs = Without(@, op.t)]
    [] op.k = "env.status" -> [m EXCEPT !.pl[op.t].status = op.name]
    [] op.k = "env.provision" ->
         [pl |-> Put(m.pl, op.id, [NewPl(ProvName, "config") EXCEPT !.conns = <<op.t>>, !.procs = <<op.plug>>]),
          cn |-> Put(m.cn, op.t, NewCn(op.id, "src", "config")),
          pr |-> Put(m.pr, op.plug, NewPr("pipeline", op.id, "config"))]
    [] OTHER -> m

(* ---------------------------------------------------------------- what a restarted server loads *)
LoadStatus(s) == IF s = "running" THEN "sysstopped" ELSE s
Load(m) == [m EXCEPT !.pl = [p \in DOMAIN m.pl |-> [m.pl[p] EXCEPT !.status = LoadStatus(@)]]]

(* --------------------------------------------------------------------------- reference integrity *)
\* every reference a pipeline / connector holds points at an existing entity that points back ...
RefsForward(m) ==
  /\ \A p \in DOMAIN m.pl :
        /\ NoDup(m.pl[p].conns) /\ NoDup(m.pl[p].procs)
        /\ \A c \in Rng(m.pl[p].conns) : HasCn(m, c) /\ m.cn[c].pipeline = p
        /\ \A r \in Rng(m.pl[p].procs) : HasPr(m, r) /\ m.pr[r].ptype = "pipeline" /\ m.pr[r].parent = p
  /\ \A c \in DOMAIN m.cn :
        /\ NoDup(m.cn[c].procs)
        /\ \A r \in Rng(m.cn[c].procs) : HasPr(m, r) /\ m.pr[r].ptype = "connector" /\ m.pr[r].parent = c
\* ... and vice versa: every connector / processor is listed by the parent it names
RefsBackward(m) ==
  /\ \A c \in DOMAIN m.cn : HasPl(m, m.cn[c].pipeline) /\ c \in Rng(m.pl[m.cn[c].pipeline].conns)
  /\ \A r \in DOMAIN m.pr :
        IF m.pr[r].ptype = "pipeline"
          THEN HasPl(m, m.pr[r].parent) /\ r \in Rng(m.pl[m.pr[r].parent].procs)
          ELSE m.pr[r].ptype = "connector" /\ HasCn(m, m.pr[r].parent) /\ r \in Rng(m.cn[m.pr[r].parent].procs)
RefIntegrityOf(m) == RefsForward(m) /\ RefsBackward(m)
NamesUniqueOf(m) == \A p, q \in DOMAIN m.pl : p # q => m.pl[p].name # m.pl[q].name

(* --------------------------------------------------- everything that belongs to one pipeline *)
OwnerOfCn(m, c) == m.cn[c].pipeline
OwnerOfPr(m, r) == IF m.pr[r].ptype = "pipeline" THEN m.pr[r].parent
                   ELSE IF HasCn(m, m.pr[r].parent) THEN m.cn[m.pr[r].parent].pipeline ELSE ""
Closure(m, p) ==
  [pl |-> IF HasPl(m, p) THEN <<m.pl[p]>> ELSE <<>>,
   cn |-> [c \in {c \in DOMAIN m.cn : OwnerOfCn(m, c) = p} |-> m.cn[c]],
   pr |-> [r \in {r \in DOMAIN m.pr : OwnerOfPr(m, r) = p} |-> m.pr[r]]]
=============================================================================
