----------------------------- MODULE Orchestrator -----------------------------
(* Property C14 as a state machine: the management API over two copies of the entity maps -
   `mem` (what List / Get answer) and `store` (the durable documents).  Every call is
       Applied        the full effect of the operation, in memory and in the store,
       Refused(why)   nothing changes,
       FailedAt(k)    the k-th store operation of the call (begin / set / commit) fails, or the
                      plugin lookup fails: nothing changes.
   TLC checks that these rules keep memory, store and the cross references consistent
   (MemEqualsLoad, RefIntegrity, NamesUnique, and the action properties AllOrNothing,
   RunningUntouched, ConfigProvisionedUntouched), and EXPORTS the behaviours: in mode "bfs" every
   transition of the state graph (as the shortest history reaching its source state plus the
   operation), in mode "sim" whole random histories.  The conformance harness replays them on the
   real orchestrator; OrchestratorTrace.tla validates what the real code did.                   *)
EXTENDS OrchestratorOps, Json

CONSTANTS NP, NC, NR,           \* sizes of the id universes: ids are assigned in creation order
          PlNames,              \* pipeline names offered to create / update (besides "")
          UpdCfgs,              \* configuration values offered to updates (creates use DefaultCfg)
          Statuses,             \* statuses the environment may set
          WithProvision,        \* offer the file-provisioned pipeline
          FaultRefused,         \* also inject store faults into calls that are refused anyway
          MaxDepth,             \* length bound of histories
          Mode,                 \* "bfs" | "sim" | "check"
          SimFaultSteps         \* mode "sim": faults are offered in the last SimFaultSteps steps only

VARIABLES mem, store, nP, nC, nR, hist
vars == <<mem, store, nP, nC, nR, hist>>
View == <<mem, store, nP, nC, nR>>

Unknown == "zz"
PIDs == [i \in 1..NP |-> "p" \o ToString(i)]
CIDs == [i \in 1..NC |-> "c" \o ToString(i)]
RIDs == [i \in 1..NR |-> "r" \o ToString(i)]

Op(k, id, t, name, cfg, plug, typ) ==
  [k |-> k, id |-> id, t |-> t, name |-> name, cfg |-> cfg, plug |-> plug, typ |-> typ, f |-> "none"]

PTargets == DOMAIN mem.pl \cup {Unknown}
CTargets == DOMAIN mem.cn \cup {Unknown}
RTargets == DOMAIN mem.pr \cup {Unknown}

NextP == IF nP < Len(PIDs) THEN PIDs[nP + 1] ELSE ""
NextC == IF nC < Len(CIDs) THEN CIDs[nC + 1] ELSE ""
NextR == IF nR < Len(RIDs) THEN RIDs[nR + 1] ELSE ""

(* the fault-free calls offered in the current state: valid and invalid arguments *)
PlCreateOps == IF NextP = "" THEN {} ELSE
  {Op("pl.create", NextP, "", n, DefaultCfg, "", "") : n \in PlNames \cup {""}}
PlUpdateOps == {Op("pl.update", "", p, n, c, "", "") : p \in PTargets, n \in PlNames \cup {""}, c \in UpdCfgs}
PlDeleteOps == {Op("pl.delete", "", p, "", "", "", "") : p \in PTargets}
PlDlqOps    == {Op("pl.dlq", "", p, "", q, "", "") : p \in PTargets, q \in {"q1", BadDlq}}
CnCreateOps == IF NextC = "" THEN {} ELSE
  {Op("cn.create", NextC, p, "", DefaultCfg, "pa", ty) : p \in PTargets, ty \in {"src", "dst", "bad"}}
CnUpdateOps == {Op("cn.update", "", c, "", g, pg, "") : c \in CTargets, g \in UpdCfgs, pg \in {"pa", "pb"}}
CnDeleteOps == {Op("cn.delete", "", c, "", "", "", "") : c \in CTargets}
PrCreateOps == IF NextR = "" THEN {} ELSE
  {Op("pr.create", NextR, p, "", DefaultCfg, "fa", "pipeline") : p \in PTargets}
  \cup {Op("pr.create", NextR, c, "", DefaultCfg, "fa", "connector") : c \in CTargets}
  \cup {Op("pr.create", NextR, Unknown, "", DefaultCfg, "fa", "bad")}
PrUpdateOps == {Op("pr.update", "", r, "", g, pg, "") : r \in RTargets, g \in UpdCfgs, pg \in {"fb", ""}}
PrDeleteOps == {Op("pr.delete", "", r, "", "", "", "") : r \in RTargets}
StatusOps   == {Op("env.status", "", p, s, "", "", "") : p \in DOMAIN mem.pl, s \in Statuses}
ProvisionOps == IF WithProvision /\ NextP # "" /\ NextC # "" /\ NextR # "" /\ ProvName \notin Names(mem)
                  THEN {Op("env.provision", NextP, NextC, "", "", NextR, "")} ELSE {}

ApiOps == PlCreateOps \cup PlUpdateOps \cup PlDeleteOps \cup PlDlqOps \cup CnCreateOps \cup CnUpdateOps
          \cup CnDeleteOps \cup PrCreateOps \cup PrUpdateOps \cup PrDeleteOps
EnvOps == {o \in StatusOps : mem.pl[o.t].status # o.name} \cup ProvisionOps

(* the faults offered for one call: each single store operation of the call, and the plugin lookup *)
StoreFault(k) == "s" \o ToString(k)
\* (random histories: faults only in the last steps, so that the history first builds up a state)
FaultsOffered == Mode # "sim" \/ Len(hist) + SimFaultSteps >= MaxDepth
Faults(op) ==
  LET d == Decide(op, mem) IN
  {"none"}
  \cup (IF FaultsOffered /\ op.k \in ApiKinds /\ (d.ok \/ FaultRefused) THEN {StoreFault(k) : k \in 1..d.nops} ELSE {})
  \cup (IF FaultsOffered /\ op.k \in ApiKinds /\ d.ok /\ (PluginDecides(op) \/ op.k = "cn.delete") THEN {"plugin"} ELSE {})

\* the specified outcome of a call
Fails(op) == op.f \notin {"none"} /\ (op.f # "plugin" \/ PluginDecides(op))
Applied(op) == Decide(op, mem).ok /\ ~Fails(op)

\* histories are bounded (mode "sim": one more step, only so that the chosen final state is exported)
Limit == MaxDepth + (IF Mode = "sim" THEN 1 ELSE 0)

Step(op0, f) ==
  LET op == [op0 EXCEPT !.f = f] IN
  /\ Len(hist) < Limit
  /\ hist' = Append(hist, op)
  /\ IF Applied(op)
       THEN /\ mem' = Apply(op, mem)
            /\ store' = Apply(op, store)
            /\ nP' = nP + (IF op.k \in {"pl.create", "env.provision"} THEN 1 ELSE 0)
            /\ nC' = nC + (IF op.k \in {"cn.create", "env.provision"} THEN 1 ELSE 0)
            /\ nR' = nR + (IF op.k \in {"pr.create", "env.provision"} THEN 1 ELSE 0)
       ELSE UNCHANGED <<mem, store, nP, nC, nR>>

Do(S) == \E op \in S : \E f \in Faults(op) : Step(op, f)

Init == mem = EmptyM /\ store = EmptyM /\ nP = 0 /\ nC = 0 /\ nR = 0 /\ hist = <<>>

\* one disjunct per kind: -simulate picks the kind first
Next == \/ Do(PlCreateOps) \/ Do(PlUpdateOps) \/ Do(PlDeleteOps) \/ Do(PlDlqOps)
        \/ Do(CnCreateOps) \/ Do(CnUpdateOps) \/ Do(CnDeleteOps)
        \/ Do(PrCreateOps) \/ Do(PrUpdateOps) \/ Do(PrDeleteOps)
        \/ Do(EnvOps)

Spec == Init /\ [][Next]_vars


(* ------------------------------------------------------------------------------ properties *)
MemEqualsLoad == Load(mem) = Load(store)      \* Load only normalises the status of a running pipeline
MemIsStore    == mem = store
RefIntegrity  == RefIntegrityOf(mem) /\ RefIntegrityOf(store)
NamesUnique   == NamesUniqueOf(mem)

Last == hist'[Len(hist')]

\* every step is the full effect of one specified operation or changes nothing at all
AllOrNothing ==
  [][\/ UNCHANGED <<mem, store>>
     \/ /\ Decide(Last, mem).ok
        /\ mem' = Apply(Last, mem)
        /\ store' = Apply(Last, store)]_vars

\* a management call never changes anything that belongs to a running pipeline ...
RunningUntouched ==
  [][Last.k \in ApiKinds =>
       \A p \in DOMAIN mem.pl : mem.pl[p].status = "running" =>
           Closure(mem', p) = Closure(mem, p) /\ Closure(store', p) = Closure(store, p)]_vars
\* ... nor to a pipeline provisioned from a configuration file
ConfigProvisionedUntouched ==
  [][Last.k \in ApiKinds =>
       \A p \in DOMAIN mem.pl : mem.pl[p].prov = "config" =>
           Closure(mem', p) = Closure(mem, p) /\ Closure(store', p) = Closure(store, p)]_vars

(* ---------------------------------------------------------------------------------- export *)
\* mode "bfs": one line per transition of the state graph (evaluated for every generated successor)
ExportTransition == Mode # "bfs" \/ PrintT("HIST " \o ToJson(hist'))
\* mode "sim": the history of the state the simulator CHOSE, when it has reached the length bound
\* (an action constraint is evaluated for the successors of the chosen state: the same line is
\* printed once per successor and de-duplicated by the reader)
ExportBehaviour == Mode # "sim" \/ Len(hist) # MaxDepth \/ PrintT("HIST " \o ToJson(hist))
Export == ExportTransition /\ ExportBehaviour
=============================================================================
