------------------------------ MODULE LiveApply ------------------------------
(* Layer B: the protocol of provisioning.Service.ApplyPlanLive for ONE pipeline
   (pkg/provisioning/plan.go), one action per critical section:

     Plan(c)        an operator computes a plan for desired configuration c against the current one and keeps
                    its hash (the plan = the set of changes from current to c; two plans are equal iff they
                    make the same changes)
     Lock / Verify  an apply takes the per-pipeline lock, recomputes the plan, compares hashes (stale -> refuse)
     Authorise      a running pipeline is touched only with operator authorisation
     InPlace        processor-only plans: swap at a record boundary, pipeline keeps running
     Drain          otherwise: stop-and-wait (the run ends, positions durable), then
     Import         the transactional import (may fail: nothing changes), then
     Restart        start again (may fail: pipeline stays stopped with the new configuration)
     Start / Stop   the environment starts / stops the pipeline at any time outside the lock-protected steps
                    (lifecycle calls are not under the provisioning lock)

   The configuration is abstracted to a record of independent parts; a desired configuration is a WHOLE
   configuration.  LockFirst = TRUE is the code (lock, then plan + verify); LockFirst = FALSE is the variant
   that verifies first and locks afterwards - TLC refutes StaleNeverApplied for it (two concurrent applies:
   the second one verifies against the state before the first and then overwrites it).

   Properties (C16):
     StaleNeverApplied   whenever an apply writes its configuration, its plan equals the plan recomputed
                         against the configuration current at that moment
     AuthRequired        a configuration write of an apply happens on a running pipeline only if authorised
     DrainedBeforeMutate ... and, unless in place, only while the pipeline is stopped with positions durable
     NothingLost         the position the pipeline resumes from is the durable one (no skipped record)      *)
EXTENDS Naturals, FiniteSets, Sequences, TLC

CONSTANTS Appliers,      \* concurrent apply calls
          Parts,         \* independent parts of the configuration, e.g. {"procs", "conn"}
          Vals,          \* values a part can take
          LockFirst,     \* TRUE = as in the code
          StartExcluded, \* TRUE = idealised: nobody can start the pipeline while an apply holds the lock.  FALSE = as
                         \* in the code: lifecycle.Start is not under the provisioning lock (see finding F29)
          AllowFail      \* import / restart may fail

Cfg == [Parts -> Vals]
LiveEligible(from, to) == \A p \in Parts : from[p] # to[p] => p = "procs"
PlanOf(from, to) == {<<p, to[p]>> : p \in {q \in Parts : from[q] # to[q]}}   \* the changes = the plan's identity

VARIABLES cfg,        \* stored (= in-memory) configuration
          running,    \* the pipeline has a live run
          acked, durable,   \* source position acknowledged / durably stored (abstract counters)
          lock,       \* holder of the per-pipeline lock or "none"
          pc,         \* pc[a]: "idle" | "planned" | "locked" | "verified" | "authorised" | "drained" | "imported" | "done"
          want,       \* want[a]: desired configuration
          hash,       \* hash[a]: plan computed by the operator
          allow,      \* allow[a]: operator authorisation
          wasRunning, \* wasRunning[a]: the pipeline was running when the apply decided how to proceed
          result,     \* result[a]: "" | "applied" | "stale" | "unauthorised" | "failed" | "stopped-new"
          badWrite    \* a configuration write that violated one of the properties: the name of the property
vars == <<cfg, running, acked, durable, lock, pc, want, hash, allow, wasRunning, result, badWrite>>

Init == /\ cfg \in Cfg /\ (\A p \in Parts : cfg[p] = CHOOSE v \in Vals : TRUE)
        /\ running \in BOOLEAN /\ acked = 0 /\ durable = 0 /\ lock = "none"
        /\ pc = [a \in Appliers |-> "idle"] /\ want = [a \in Appliers |-> cfg] /\ hash = [a \in Appliers |-> {}]
        /\ allow \in [Appliers -> BOOLEAN] /\ wasRunning = [a \in Appliers |-> FALSE]
        /\ result = [a \in Appliers |-> ""] /\ badWrite = {}

(* ---- environment: the pipeline runs, acknowledges, persists; lifecycle calls are not under the lock ---- *)
Flow == /\ running /\ acked < 2 /\ acked' = acked + 1 /\ UNCHANGED <<cfg, running, durable, lock, pc, want, hash, allow, wasRunning, result, badWrite>>
Persist == /\ durable < acked /\ durable' = acked /\ UNCHANGED <<cfg, running, acked, lock, pc, want, hash, allow, wasRunning, result, badWrite>>
EnvStart == /\ ~running /\ \A a \in Appliers : pc[a] \notin {"drained", "imported"}   \* (StopAndWait..Start of an apply is one call chain)
            /\ (StartExcluded => lock = "none")
            /\ running' = TRUE /\ acked' = durable
            /\ UNCHANGED <<cfg, durable, lock, pc, want, hash, allow, wasRunning, result, badWrite>>

(* ---- one apply ---- *)
Plan(a, c) == /\ pc[a] = "idle" /\ c # cfg
              /\ want' = [want EXCEPT ![a] = c] /\ hash' = [hash EXCEPT ![a] = PlanOf(cfg, c)]
              /\ pc' = [pc EXCEPT ![a] = "planned"]
              /\ UNCHANGED <<cfg, running, acked, durable, lock, allow, wasRunning, result, badWrite>>

Finish(a, r) == /\ pc' = [pc EXCEPT ![a] = "done"] /\ result' = [result EXCEPT ![a] = r]
                /\ lock' = IF lock = a THEN "none" ELSE lock

TakeLock(a) == /\ lock = "none" /\ lock' = a
Verify(a) == PlanOf(cfg, want[a]) = hash[a]

\* the code: lock, then recompute + compare
LockThenVerify(a) ==
  /\ LockFirst /\ pc[a] = "planned" /\ lock = "none"
  /\ IF Verify(a) THEN /\ lock' = a /\ pc' = [pc EXCEPT ![a] = "verified"] /\ UNCHANGED result
                  ELSE /\ pc' = [pc EXCEPT ![a] = "done"] /\ result' = [result EXCEPT ![a] = "stale"] /\ UNCHANGED lock
  /\ UNCHANGED <<cfg, running, acked, durable, want, hash, allow, wasRunning, badWrite>>
\* the variant: recompute + compare without the lock, take it afterwards
VerifyNoLock(a) ==
  /\ ~LockFirst /\ pc[a] = "planned"
  /\ IF Verify(a) THEN pc' = [pc EXCEPT ![a] = "locked"] /\ UNCHANGED result
                  ELSE pc' = [pc EXCEPT ![a] = "done"] /\ result' = [result EXCEPT ![a] = "stale"]
  /\ UNCHANGED <<cfg, running, acked, durable, lock, want, hash, allow, wasRunning, badWrite>>
LockAfterVerify(a) ==
  /\ ~LockFirst /\ pc[a] = "locked" /\ TakeLock(a)
  /\ pc' = [pc EXCEPT ![a] = "verified"]
  /\ UNCHANGED <<cfg, running, acked, durable, want, hash, allow, wasRunning, result, badWrite>>

Authorise(a) ==
  /\ pc[a] = "verified"
  /\ IF running /\ ~allow[a]
       THEN Finish(a, "unauthorised") /\ UNCHANGED wasRunning
       ELSE /\ pc' = [pc EXCEPT ![a] = "authorised"] /\ wasRunning' = [wasRunning EXCEPT ![a] = running]
            /\ UNCHANGED <<result, lock>>
  /\ UNCHANGED <<cfg, running, acked, durable, want, hash, allow, badWrite>>

\* every configuration write of an apply goes through here: the properties are evaluated at the write
Write(a, inplace) ==
  LET stale == PlanOf(cfg, want[a]) # hash[a]
      unauth == running /\ ~allow[a]
      undrained == running /\ ~inplace
      lost == ~inplace /\ durable < acked IN
  /\ cfg' = want[a]
  /\ badWrite' = badWrite \cup (IF stale THEN {"StaleNeverApplied"} ELSE {}) \cup (IF unauth THEN {"AuthRequired"} ELSE {})
                          \cup (IF undrained THEN {"DrainedBeforeMutate"} ELSE {}) \cup (IF lost THEN {"NothingLost"} ELSE {})

\* not running: plain transactional import
ImportStopped(a) ==
  /\ pc[a] = "authorised" /\ ~wasRunning[a]
  /\ \/ Write(a, FALSE) /\ Finish(a, "applied")
     \/ AllowFail /\ Finish(a, "failed") /\ UNCHANGED <<cfg, badWrite>>
  /\ UNCHANGED <<running, acked, durable, want, hash, allow, wasRunning>>
\* running + processor-only plan: in place (a failing open is undone: nothing changes)
InPlace(a) ==
  /\ pc[a] = "authorised" /\ wasRunning[a] /\ LiveEligible(cfg, want[a]) /\ running
  /\ \/ Write(a, TRUE) /\ Finish(a, "applied")
     \/ AllowFail /\ Finish(a, "failed") /\ UNCHANGED <<cfg, badWrite>>
  /\ UNCHANGED <<running, acked, durable, want, hash, allow, wasRunning>>
\* running otherwise: stop-and-wait (run ended, positions durable) ...
Drain(a) ==
  /\ pc[a] = "authorised" /\ wasRunning[a] /\ (~LiveEligible(cfg, want[a]) \/ ~running)
  /\ IF running THEN /\ running' = FALSE /\ durable' = acked /\ pc' = [pc EXCEPT ![a] = "drained"] /\ UNCHANGED <<result, lock>>
                ELSE /\ Finish(a, "failed") /\ UNCHANGED <<running, durable>>     \* somebody stopped it meanwhile: refused
  /\ UNCHANGED <<cfg, acked, want, hash, allow, wasRunning, badWrite>>
\* ... import ...
ImportDrained(a) ==
  /\ pc[a] = "drained"
  /\ \/ Write(a, FALSE) /\ pc' = [pc EXCEPT ![a] = "imported"] /\ UNCHANGED <<result, lock>>
     \/ AllowFail /\ Finish(a, "failed") /\ UNCHANGED <<cfg, badWrite>>     \* cleanly stopped, old configuration
  /\ UNCHANGED <<running, acked, durable, want, hash, allow, wasRunning>>
\* ... restart from the durable position
Restart(a) ==
  /\ pc[a] = "imported"
  /\ \/ running' = TRUE /\ acked' = durable /\ Finish(a, "applied")
     \/ AllowFail /\ Finish(a, "stopped-new") /\ UNCHANGED <<running, acked>>
  /\ UNCHANGED <<cfg, durable, want, hash, allow, wasRunning, badWrite>>

Next == \/ Flow \/ Persist \/ EnvStart
        \/ \E a \in Appliers : \/ \E c \in Cfg : Plan(a, c)
                               \/ LockThenVerify(a) \/ VerifyNoLock(a) \/ LockAfterVerify(a) \/ Authorise(a)
                               \/ ImportStopped(a) \/ InPlace(a) \/ Drain(a) \/ ImportDrained(a) \/ Restart(a)
Spec == Init /\ [][Next]_vars

StaleNeverApplied   == "StaleNeverApplied" \notin badWrite
AuthRequired        == "AuthRequired" \notin badWrite
DrainedBeforeMutate == "DrainedBeforeMutate" \notin badWrite
NothingLost         == "NothingLost" \notin badWrite
\* a refused / failed apply leaves the old or the new complete configuration: by construction of Write (whole
\* configurations only); the lock is never leaked
LockReleased == \A a \in Appliers : pc[a] \in {"idle", "planned", "locked", "done"} => lock # a
=============================================================================
