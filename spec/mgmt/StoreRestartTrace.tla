-------------------------- MODULE StoreRestartTrace --------------------------
(* Trace validation for property C17.  The trace is recorded by harness/drivers/storerestart: per
   scenario (one case of StoreRestart.tla with concrete seeded values)
     Reset                     the case: family, kind, via, format, class vector
     Written(entity, fields, classes)
                               every stored field of the entity as it was written: api cases - what
                               the live services hold before the restart; document cases - the meaning
                               of the document put into the store.  Field values are equality-
                               preserving tokens of a faithful rendering (nil vs empty, byte for byte,
                               timestamps as instant + zone offset); status / prov / type are plain.
     Read(k, entity, found, initerr, fields, classes, oldkey, newkey)
                               what Get/List of FRESH services on the same store answer after the
                               k-th restart (k = 2: after a re-save that must not change anything)
     Resumed(startable, before, status, initerr)
                               the pipeline's status after the real lifecycle service's Init
   Verdicts (collected in viol, printed at the next Reset):
     Loads               the restarted server initialises and finds the entity (Get and List)
     RestartIsIdentity   every field read back = the field written, except LoadClass on the status;
                         also on the class level; also after the re-save and a second restart
     FormatUnderstood    an old-format document is moved to the current key and the old key removed
     ResumedRunning      a pipeline written Running / SystemStopped is found SystemStopped after the
                         restart and Running after the lifecycle Init; any other status is left alone *)
EXTENDS StoreRestartOps, Sequences, FiniteSets, TLC, Json, Integers

CONSTANT TraceFile
Trace == ndJsonDeserialize(TraceFile)

VARIABLES l, st, viol
vars == <<l, st, viol>>

Ev == Trace[l]
IsEvent(k) == l <= Len(Trace) /\ Ev.ev = k /\ l' = l + 1
Known == {"Reset", "Written", "Read", "Resumed", "HarnessError", "Panic", "ChildTimeout"}

Empty == [scen |-> "", format |-> "", written |-> <<>>, read |-> <<>>, bad |-> FALSE]
Init == l = 1 /\ st = Empty /\ viol = {}

V(inv, what) == [inv |-> inv, at |-> Ev.n, scen |-> st.scen, what |-> what]
Fn(f) == [x \in DOMAIN f |-> f[x]]

Reset ==
  /\ IsEvent("Reset")
  /\ (viol = {} \/ PrintT("VIOLS " \o ToJson(viol)))
  /\ viol' = {}
  /\ st' = [Empty EXCEPT !.scen = Ev.scenario, !.format = IF "format" \in DOMAIN Ev THEN Ev.format ELSE ""]

Written ==
  /\ IsEvent("Written")
  /\ st' = [st EXCEPT !.written = (Ev.entity :> [fields |-> Fn(Ev.fields), classes |-> Fn(Ev.classes)]) @@ @]
  /\ UNCHANGED viol

\* the fields (values, then classes) that were not read back as written
BadFields(w, r) == {f \in DOMAIN w : f \notin DOMAIN r \/ r[f] # LoadClass(f, w[f])}

Read ==
  /\ IsEvent("Read")
  /\ LET e == Ev.entity
         known == e \in DOMAIN st.written
         w == st.written[e]
         rf == Fn(Ev.fields)
         rc == Fn(Ev.classes)
         first == Ev.k = 1
         prev == st.read[e]
     IN
     /\ st' = [st EXCEPT !.read = (e :> rf) @@ @, !.bad = @ \/ ~known \/ (~first /\ e \notin DOMAIN st.read)]
     /\ viol' = viol \cup
          (IF ~known THEN {} ELSE
            (IF Ev.found /\ Ev.inlist /\ Ev.initerr = "" THEN {} ELSE
               {V("Loads", [entity |-> e, k |-> Ev.k, found |-> Ev.found, inlist |-> Ev.inlist, initerr |-> Ev.initerr])})
            \cup (IF ~Ev.found THEN {}
                  ELSE IF first
                    THEN (IF BadFields(w.fields, rf) = {} /\ BadFields(w.classes, rc) = {} THEN {} ELSE
                            {V("RestartIsIdentity", [entity |-> e, k |-> 1, fields |-> BadFields(w.fields, rf),
                                                     classes |-> {[f |-> f, written |-> w.classes[f],
                                                                   read |-> IF f \in DOMAIN rc THEN rc[f] ELSE "(missing)"] :
                                                                  f \in BadFields(w.classes, rc)}])})
                    ELSE (IF e \notin DOMAIN st.read \/ rf = prev THEN {} ELSE
                            {V("RestartIsIdentity", [entity |-> e, k |-> Ev.k,
                                                     fields |-> {f \in DOMAIN prev : f \notin DOMAIN rf \/ rf[f] # prev[f]},
                                                     classes |-> {}])}))
            \cup (IF st.format = "pre041" /\ (Ev.oldkey \/ ~Ev.newkey)
                    THEN {V("FormatUnderstood", [entity |-> e, k |-> Ev.k, oldkey |-> Ev.oldkey, newkey |-> Ev.newkey])}
                    ELSE {}))

Resumed ==
  /\ IsEvent("Resumed")
  /\ LET e == "pipeline/pl"
         known == e \in DOMAIN st.written
         ws == st.written[e].fields.status
         afterRestart == LoadClass("status", ws)
         want == ResumeClass("status", afterRestart)
     IN
     /\ st' = [st EXCEPT !.bad = @ \/ ~known]
     /\ viol' = viol \cup
          (IF ~known THEN {}
           ELSE IF Ev.before # afterRestart
             THEN {V("ResumedRunning", [written |-> ws, before |-> Ev.before, status |-> Ev.status, what |-> "status after the restart"])}
           ELSE IF Ev.startable /\ (Ev.status # want \/ Ev.initerr # "")
             THEN {V("ResumedRunning", [written |-> ws, before |-> Ev.before, status |-> Ev.status, what |-> Ev.initerr])}
           ELSE IF ~Ev.startable /\ afterRestart # "sysstopped" /\ Ev.status # afterRestart
             THEN {V("ResumedRunning", [written |-> ws, before |-> Ev.before, status |-> Ev.status, what |-> "a pipeline not to be resumed was touched"])}
           ELSE {})

HarnessError == (IsEvent("HarnessError") \/ IsEvent("Panic") \/ IsEvent("ChildTimeout"))
                /\ st' = [st EXCEPT !.bad = TRUE] /\ UNCHANGED viol
Other == l <= Len(Trace) /\ Ev.ev \notin Known /\ l' = l + 1 /\ UNCHANGED <<st, viol>>

Next == Reset \/ Written \/ Read \/ Resumed \/ HarnessError \/ Other
Spec == Init /\ [][Next]_vars

WellFormed == ~st.bad
TraceAccepted == TLCGet("stats").diameter - 1 = Len(Trace)
=============================================================================
