-------------------------- MODULE OrchestratorTrace --------------------------
(* Trace validation of the REAL orchestrator (property C14) against OrchestratorOps.

   The trace is recorded by harness/drivers/orch: per scenario a Reset, one Obs (the observation
   before the first logged call), then for every management call a Call (the operation, logged
   before it is handed to the orchestrator) and a Ret (error classification, whether the injected
   fault fired, and the observation after the call).  An observation holds three views of the
   entity maps with every stored field (timestamps and remaining fields as equality-preserving
   tokens):  mem = List/Get of the running services,  fresh = what fresh services initialised from
   the same store load,  raw = the store documents decoded without service code;  plus the
   pipeline-name set of the running and of the fresh pipeline service, stray store keys, and
   whether Get agrees with List.

   Every step is judged against the observation BEFORE it (so one defect does not cascade):
     AllOrNothing        the three views after the call are either exactly those before it, or the
                         full effect of the operation (OrchestratorOps!Apply) with every entity
                         outside the operation's footprint untouched
     OutcomeAsSpecified  fault-free call: no error iff OrchestratorOps!Decide applies it and then
                         the full effect is there; failing store operation / plugin: an error
     MemEqualsLoad       mem = Load(store) on every field, names included (reported when the set
                         of diverging entities grows)
     LoadIsStore         what fresh services load is what the store documents say; no stray keys
     RefIntegrity        both directions, in memory and in the store
     NamesConsistent     the name set the pipeline service enforces = the names of its pipelines
     RunningUntouched / ConfigProvisionedUntouched
     GetMatchesList
   Recording actions are total; violations are collected in `viol` and printed at the next Reset. *)
EXTENDS OrchestratorOps, Json

CONSTANT TraceFile
Trace == ndJsonDeserialize(TraceFile)

VARIABLES l, st, viol
vars == <<l, st, viol>>

Ev == Trace[l]
IsEvent(k) == l <= Len(Trace) /\ Ev.ev = k /\ l' = l + 1
Known == {"Reset", "Obs", "Call", "Ret", "HarnessError", "Panic", "ChildTimeout"}

EmptyV == [pl |-> <<>>, cn |-> <<>>, pr |-> <<>>]
EmptyObs == [mem |-> EmptyV, fresh |-> EmptyV, raw |-> EmptyV, stray |-> <<>>, getok |-> TRUE,
             fresherr |-> "", mnames |-> <<>>, fnames |-> <<>>]
NoOp == [k |-> "", id |-> "", t |-> "", name |-> "", cfg |-> "", plug |-> "", typ |-> "", f |-> "none"]
Empty == [scen |-> "", o |-> EmptyObs, d |-> [div |-> {}, sdiff |-> {}, namesok |-> TRUE, refok |-> {"mem", "fresh", "raw"}],
          op |-> NoOp, tainted |-> FALSE, bad |-> FALSE]

Init == l = 1 /\ st = Empty /\ viol = {}

V(inv, what) == [inv |-> inv, at |-> Ev.n, scen |-> st.scen, what |-> what]

(* ------------------------------------------------------------------ views and projections *)
AbsPl(r) == [name |-> r.name, cfg |-> r.cfg, dlq |-> r.dlq, conns |-> r.conns, procs |-> r.procs,
             status |-> r.status, prov |-> r.prov]
AbsCn(r) == [pipeline |-> r.pipeline, type |-> r.type, plugin |-> r.plugin, cfg |-> r.cfg,
             procs |-> r.procs, prov |-> r.prov]
AbsPr(r) == [ptype |-> r.ptype, parent |-> r.parent, plugin |-> r.plugin, cfg |-> r.cfg, prov |-> r.prov]
Abs(v) == [pl |-> [p \in DOMAIN v.pl |-> AbsPl(v.pl[p])],
           cn |-> [c \in DOMAIN v.cn |-> AbsCn(v.cn[c])],
           pr |-> [r \in DOMAIN v.pr |-> AbsPr(v.pr[r])]]
LoadFull(v) == [v EXCEPT !.pl = [p \in DOMAIN v.pl |-> [v.pl[p] EXCEPT !.status = LoadStatus(@)]]]

\* the differences between two views: entity added (+), removed (-), or the fields that differ
DiffEnt(a, b, c) ==
  {[id |-> x, f |-> {"-"}] : x \in DOMAIN a[c] \ DOMAIN b[c]}
  \cup {[id |-> x, f |-> {"+"}] : x \in DOMAIN b[c] \ DOMAIN a[c]}
  \cup {[id |-> x, f |-> {g \in DOMAIN a[c][x] : a[c][x][g] # b[c][x][g]}] :
          x \in {y \in DOMAIN a[c] \cap DOMAIN b[c] : a[c][y] # b[c][y]}}
Diff(a, b) == DiffEnt(a, b, "pl") \cup DiffEnt(a, b, "cn") \cup DiffEnt(a, b, "pr")

(* ------------------------------------------------------------------------------ footprint *)
\* the entities an operation is allowed to touch
Footprint(op, m) ==
  CASE op.k \in {"pl.create", "pl.update", "pl.delete", "pl.dlq", "cn.update", "pr.update"} -> {op.id, op.t}
    [] op.k \in {"cn.create", "pr.create"} -> {op.id, op.t}
    [] op.k = "cn.delete" -> {op.t} \cup (IF HasCn(m, op.t) THEN {m.cn[op.t].pipeline} ELSE {})
    [] op.k = "pr.delete" -> {op.t} \cup (IF HasPr(m, op.t) THEN {m.pr[op.t].parent} ELSE {})
    [] OTHER -> {}

\* entities outside the footprint are identical on every field; creation times inside are kept
OutsideKept(op, a, b) ==
  \A d \in Diff(a, b) : d.id \in Footprint(op, Abs(a)) /\ "created" \notin d.f

\* (Decide.ok also makes Apply well-defined on a view that has diverged from memory)
FullEffectView(op, a, b) == Decide(op, Abs(a)).ok /\ Abs(b) = Apply(op, Abs(a)) /\ OutsideKept(op, a, b)

(* ------------------------------------------------------------------------ state predicates *)
\* (the common case - the views agree - is decided by one comparison)
DiffQ(a, b) == IF a = b THEN {} ELSE Diff(a, b)
Diverged(o) == DiffQ(LoadFull(o.mem), o.fresh)
    \cup (IF Rng(o.mnames) # Rng(o.fnames) THEN {[id |-> "names", f |-> {"names"}]} ELSE {})
    \cup (IF o.fresherr # "" THEN {[id |-> "init", f |-> {"fresherr"}]} ELSE {})
StoreDiff(o) == DiffQ(LoadFull(o.raw), o.fresh)
    \cup {[id |-> o.stray[i], f |-> {"stray"}] : i \in DOMAIN o.stray}
NamesOk(o) == Rng(o.mnames) = Names(Abs(o.mem)) /\ Rng(o.fnames) = Names(Abs(o.fresh))

Views == {"mem", "fresh", "raw"}
Owned(o, pred(_)) == {p \in DOMAIN o.mem.pl : pred(o.mem.pl[p])}
IsRunning(r) == r.status = "running"
IsConfig(r) == r.prov = "config"
Touched(pre, post, p) == {w \in Views : Closure(post[w], p) # Closure(pre[w], p)}

(* ---------------------------------------------------------------------------------------- *)
\* what is derived from an observation and needed again when it is the "before" of the next call
Derive(o) == [div |-> Diverged(o), sdiff |-> StoreDiff(o), namesok |-> NamesOk(o),
              refok |-> IF o.raw = o.fresh /\ LoadFull(o.mem) = o.fresh
                          THEN (IF RefIntegrityOf(Abs(o.mem)) THEN Views ELSE {})
                          ELSE {w \in Views : RefIntegrityOf(Abs(o[w]))}]

Reset ==
  /\ IsEvent("Reset")
  /\ (viol = {} \/ PrintT("VIOLS " \o ToJson(viol)))
  /\ viol' = {}
  /\ st' = [Empty EXCEPT !.scen = Ev.scenario]

Obs ==
  /\ IsEvent("Obs")
  \* a step of the (unlogged) prefix that did not succeed: the history TLC exported did not reproduce -
  \* the implementation already went wrong in a step that is judged where it is the last step of its
  \* own scenario; this scenario is not judged
  /\ st' = [st EXCEPT !.o = Ev.obs, !.d = Derive(Ev.obs), !.tainted = Ev.prefix_errors > 0]
  /\ UNCHANGED viol

Call ==
  /\ IsEvent("Call")
  /\ st' = [st EXCEPT !.op = Ev.op, !.bad = @ \/ st.op # NoOp]
  /\ UNCHANGED viol

FaultLabel(op) == IF op.f \in {"none", "plugin"} THEN op.f ELSE IF Ev.fired THEN Ev.fault_at ELSE "none"

Ret ==
  /\ IsEvent("Ret")
  /\ LET pre  == st.o
         post == Ev.obs
         pd   == st.d
         qd   == Derive(post)
         op   == st.op
         api  == op.k \in ApiKinds
         d    == Decide(op, Abs(pre.mem))
         storeFault == op.f \notin {"none", "plugin"} /\ Ev.fired
         faulted == storeFault \/ (op.f = "plugin" /\ PluginDecides(op))
         unchanged == \A w \in Views : post[w] = pre[w]
         full == /\ FullEffectView(op, pre.mem, post.mem)
                 /\ FullEffectView(op, pre.raw, post.raw)
                 /\ FullEffectView(op, pre.fresh, post.fresh)
         ctx == [op |-> op.k, fault |-> FaultLabel(op), why |-> d.why, errnil |-> Ev.err.nil]
         W(x) == ctx @@ x
     IN
     /\ st' = [st EXCEPT !.o = post, !.d = qd, !.op = NoOp, !.bad = @ \/ op = NoOp,
                 \* an environment step that fails (it refers to something an earlier, reported, step
                 \* should have created): the rest of this history is not judged
                 !.tainted = @ \/ (~api /\ ~Ev.err.nil)]
     /\ viol' = viol \cup
          (IF ~api THEN {}
           \* memory and store already disagree before the call (an earlier step of this history was
           \* reported): what this call does on top of that is not judged (and counted as skipped)
           ELSE IF st.tainted \/ pd.div # {} \/ pd.sdiff # {} THEN {V("SkippedTainted", [op |-> op.k])} ELSE
             (IF unchanged \/ full THEN {} ELSE
                {V("AllOrNothing", W([mem |-> Diff(pre.mem, post.mem), store |-> Diff(pre.raw, post.raw),
                                       fresh |-> Diff(pre.fresh, post.fresh)]))})
             \cup (IF faulted
                     THEN (IF Ev.err.nil THEN {V("OutcomeAsSpecified", W([what |-> "a failing step was reported as success"]))} ELSE {})
                     ELSE (IF Ev.err.nil # d.ok
                             THEN {V("OutcomeAsSpecified", W([what |-> IF d.ok THEN "refused a call the specification applies"
                                                                                ELSE "applied a call the specification refuses"]))}
                             ELSE IF Ev.err.nil /\ ~full
                               THEN {V("OutcomeAsSpecified", W([what |-> "success reported without the full effect",
                                                                 mem |-> Diff(pre.mem, post.mem)]))}
                               ELSE {}))
             \cup (IF qd.div \subseteq pd.div THEN {} ELSE
                     {V("MemEqualsLoad", W([diff |-> qd.div \ pd.div]))})
             \cup (IF qd.sdiff \subseteq pd.sdiff THEN {} ELSE
                     {V("LoadIsStore", W([diff |-> qd.sdiff \ pd.sdiff]))})
             \cup {V("RefIntegrity", W([view |-> w])) : w \in pd.refok \ qd.refok}
             \cup (IF qd.namesok \/ ~pd.namesok THEN {} ELSE
                     {V("NamesConsistent", W([mnames |-> Rng(post.mnames), fnames |-> Rng(post.fnames),
                                              names |-> Names(Abs(post.mem))]))})
             \cup {V("RunningUntouched", W([pipeline |-> p, views |-> Touched(pre, post, p)])) :
                     p \in {p \in Owned(pre, IsRunning) : Touched(pre, post, p) # {}}}
             \cup {V("ConfigProvisionedUntouched", W([pipeline |-> p, views |-> Touched(pre, post, p)])) :
                     p \in {p \in Owned(pre, IsConfig) : Touched(pre, post, p) # {}}}
             \cup (IF post.getok THEN {} ELSE {V("GetMatchesList", W([what |-> "Get disagrees with List"]))}))

HarnessError == (IsEvent("HarnessError") \/ IsEvent("Panic") \/ IsEvent("ChildTimeout"))
                /\ st' = [st EXCEPT !.bad = TRUE] /\ UNCHANGED viol
Other == l <= Len(Trace) /\ Ev.ev \notin Known /\ l' = l + 1 /\ UNCHANGED <<st, viol>>

Next == Reset \/ Obs \/ Call \/ Ret \/ HarnessError \/ Other
Spec == Init /\ [][Next]_vars

\* a harness / vocabulary error, never a property violation
WellFormed == ~st.bad
TraceAccepted == TLCGet("stats").diameter - 1 = Len(Trace)
=============================================================================
