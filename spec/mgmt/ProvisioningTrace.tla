-------------------------- MODULE ProvisioningTrace --------------------------
(* Trace validation of runs of the REAL provisioning.Service (harness/drivers/prov) against the
   vocabulary of ProvisioningOps: every import recorded in the trace is re-computed with the
   specification's operators (Enrich, Target, NextPos) and compared with everything the driver
   observed afterwards: Export, the Get/List view of the three services, the view of services
   freshly loaded from the store, the connector positions, Plan emptiness.

   Pattern of spec/datapath/DataPathTrace.tla: total recording actions, violations accumulated in
   `viol` and printed as one "VIOLS [...]" line at the next Reset; TLC itself stops only for
   harness errors (WellFormed) or an event no action accepts (TraceAccepted).

   The abstract state ALWAYS follows the observed one (st.cfg := the services' view, st.pos := the
   observed positions) after every step on the main engine, so that one deviation is reported
   once, at the step that caused it, and "the previous configuration" of a later failing import is
   the configuration that was actually there.  Imports on forks (fault families "every k") do
   not change the abstract state.

   Violation classes (field `what` = "<class>|<detail>"):
     import-failed   a valid import without (effective) fault returned an error
     enrich          config.Enrich differs from the specification's Enrich
     svc / export / fresh          the respective view differs from the expected configuration
     svc-cond / export-cond / fresh-cond   ... differs ONLY in processor conditions
     pos / fresh-pos               connector positions differ from the expected ones
     orphans / badrefs / fresh-integrity   entities nobody refers to, wrong back references
     plan-nonempty   Plan(desired) is not empty although the stored configuration equals desired
   Invariant names: Converges (successful import), Idempotent (repeated import, Plan), FailAtomic
   (failed import), PositionKept (positions, either outcome). *)
EXTENDS ProvisioningOps, Json, TLC

CONSTANT TraceFile
Trace == ndJsonDeserialize(TraceFile)

VARIABLES l, st, viol
vars == <<l, st, viol>>

Ev == Trace[l]
IsEvent(k) == l <= Len(Trace) /\ Ev.ev = k /\ l' = l + 1

Known == {"Reset", "Import", "ImportRet", "Plan", "SetPos", "Forks", "Restart", "Observe", "Abort", "End",
          "HarnessError", "Panic", "ChildTimeout"}

NoCur == [cfg |-> NoCfg, fork |-> FALSE, again |-> FALSE, kind |-> "none"]
\* cfg, pos: what the services show; dcfg, dpos: what the store holds (services loaded from it)
Empty == [scen |-> "", cfg |-> NoCfg, pos |-> <<>>, dcfg |-> NoCfg, dpos |-> <<>>, cur |-> NoCur, fcfg |-> NoCfg,
          bad |-> FALSE]

Init == l = 1 /\ st = Empty /\ viol = {}

V(inv, what) == [inv |-> inv, at |-> Ev.n, scen |-> st.scen, what |-> what]
Add(cond, inv, what) == IF cond THEN {} ELSE {V(inv, what)}

Reset ==
  /\ IsEvent("Reset")
  /\ (viol = {} \/ PrintT("VIOLS " \o ToJson(viol)))
  /\ viol' = {}
  /\ st' = [Empty EXCEPT !.scen = Ev.scenario]

\* the views of an observation (identical views are logged once)
SvcOf(o)    == o.svc
ExportOf(o) == IF o.export_eq THEN o.svc ELSE o.export
FreshOf(o)  == IF o.fresh_eq THEN o.svc ELSE o.fresh
FreshPos(o) == IF o.fresh_eq THEN o.pos ELSE o.freshpos
SaneView(v) == "conns" \in DOMAIN v \/ v = NoCfg
Sane(o) == SaneView(o.svc)

ConnKeys(cfg) == [i \in 1..Len(cfg.conns) |-> <<cfg.conns[i].id, cfg.conns[i].type>>]
PosComparable(view, exp) ==
  /\ "conns" \in DOMAIN view /\ "conns" \in DOMAIN exp
  /\ ConnKeys(view) = ConnKeys(exp)

\* the ids of the connectors whose position differs, "a,b" (detail of a PositionKept violation)
RECURSIVE JoinIds(_)
JoinIds(ids) == IF Len(ids) = 0 THEN "" ELSE IF Len(ids) = 1 THEN ids[1] ELSE ids[1] \o "," \o JoinIds(Tail(ids))
PosDiff(view, p, q) ==
  IF "conns" \notin DOMAIN view \/ Len(p) # Len(q) \/ Len(p) # Len(view.conns) THEN "?"
  ELSE JoinIds(SelectSeq([i \in 1..Len(p) |-> IF p[i] # q[i] THEN view.conns[i].id ELSE ""], LAMBDA x : x # ""))

\* compare one view with the expected configuration; two classes of deviation
ViewViol(view, exp, inv, name) ==
  IF view = exp THEN {}
  ELSE IF StripCond(view) = StripCond(exp) THEN {V(inv, name \o "-cond|only processor conditions differ")}
  ELSE {V(inv, name \o "|differs from the expected configuration")}

Forks ==
  /\ IsEvent("Forks")
  /\ st' = [st EXCEPT !.fcfg = Ev.cfg]
  /\ viol' = viol \cup Add(Enrich(Ev.cfg) = Ev.enriched, "Converges", "enrich|config.Enrich differs from the specification")

Import ==
  /\ IsEvent("Import")
  /\ LET raw == IF Ev.owncfg THEN Ev.cfg ELSE st.fcfg IN
     /\ st' = [st EXCEPT !.cur = [cfg |-> raw, fork |-> Ev.fork, again |-> Ev.again, kind |-> Ev.fault.kind],
                         !.bad = @ \/ raw = NoCfg]
     /\ viol' = IF ~Ev.owncfg THEN viol
                ELSE viol \cup Add(Enrich(raw) = Ev.enriched, "Converges",
                                   "enrich|config.Enrich differs from the specification")

ImportRet ==
  /\ IsEvent("ImportRet")
  /\ LET c == st.cur
         o == Ev.obs
         tgt == Target(c.cfg)
         \* a fork starts from services loaded from the store
         oldCfg == IF c.fork THEN st.dcfg ELSE st.cfg
         oldPos == IF c.fork THEN st.dpos ELSE st.pos
         expCfg == IF Ev.ok THEN tgt ELSE oldCfg
         expPos == IF Ev.ok THEN NextPos(oldCfg, oldPos, tgt) ELSE oldPos
         \* what the store must hold: after a failed import, what it held before (services and store
         \* may have diverged at an earlier step - that was reported there)
         expDCfg == IF Ev.ok THEN tgt ELSE st.dcfg
         expDPos == IF Ev.ok THEN expPos ELSE st.dpos
         inv == IF ~Ev.ok THEN "FailAtomic" ELSE IF c.again THEN "Idempotent" ELSE "Converges"
     IN
     /\ viol' = viol
          \cup Add(Ev.ok \/ Ev.hit, IF c.again THEN "Idempotent" ELSE "Converges", "import-failed|" \o Ev.err)
          \cup ViewViol(SvcOf(o), expCfg, inv, "svc")
          \cup ViewViol(ExportOf(o), expCfg, inv, "export")
          \cup ViewViol(FreshOf(o), expDCfg, inv, "fresh")
          \* positions are compared only where the view shows the expected connectors (any other
          \* deviation of the view is reported by the view comparison above, once)
          \cup Add(PosComparable(SvcOf(o), expCfg) => o.pos = expPos, "PositionKept",
                   "pos|" \o PosDiff(SvcOf(o), o.pos, expPos))
          \cup Add(PosComparable(FreshOf(o), expDCfg) => FreshPos(o) = expDPos, "PositionKept",
                   "fresh-pos|" \o PosDiff(FreshOf(o), FreshPos(o), expDPos))
          \cup Add(o.orphans = <<>>, inv, "orphans|" \o o.integrity)
          \cup Add(o.badrefs = <<>>, inv, "badrefs|" \o o.integrity)
          \cup Add(o.freshbad = <<>>, inv, "fresh-integrity|" \o o.freshintegrity)
     /\ st' = IF c.fork THEN [st EXCEPT !.cur = NoCur]
              ELSE LET s1 == IF Sane(o) THEN [st EXCEPT !.cfg = o.svc, !.pos = o.pos] ELSE st
                       s2 == IF SaneView(FreshOf(o)) THEN [s1 EXCEPT !.dcfg = FreshOf(o), !.dpos = FreshPos(o)] ELSE s1
                   IN [s2 EXCEPT !.cur = [c EXCEPT !.kind = "done"]]

\* Plan(desired): empty whenever the stored configuration already equals the desired one
Plan ==
  /\ IsEvent("Plan")
  /\ LET raw == IF Ev.when = "explicit" THEN Ev.cfg ELSE st.cur.cfg IN
     viol' = viol
       \cup Add(Ev.ok, "Idempotent", "plan-error|" \o Ev.err)
       \cup Add((Ev.ok /\ st.cfg = Target(raw)) => Ev.empty, "Idempotent",
                "plan-nonempty|" \o Ev.summary)
  /\ UNCHANGED st

\* the environment stores a position through the connector service
SetPos ==
  /\ IsEvent("SetPos")
  /\ IF Ev.idx \in 1..Len(st.pos) /\ "conns" \in DOMAIN st.cfg /\ st.cfg.conns[Ev.idx].id = Ev.conn
       THEN LET durable == Ev.idx \in 1..Len(st.dpos) /\ "conns" \in DOMAIN st.dcfg
                           /\ Ev.idx <= Len(st.dcfg.conns) /\ st.dcfg.conns[Ev.idx].id = Ev.conn IN
            st' = [st EXCEPT !.pos[Ev.idx] = Ev.pos,
                             !.dpos = IF durable THEN [@ EXCEPT ![Ev.idx] = Ev.pos] ELSE @]
       ELSE st' = [st EXCEPT !.bad = TRUE]
  /\ UNCHANGED viol

Restart == IsEvent("Restart") /\ UNCHANGED <<st, viol>>

\* services loaded from the store show what the store held (a divergence between services and
\* store was reported when it arose, by the "fresh" comparisons)
Observe ==
  /\ IsEvent("Observe")
  /\ LET o == Ev.obs IN
     /\ viol' = viol
          \cup ViewViol(SvcOf(o), st.dcfg, "Converges", "restart-svc")
          \cup ViewViol(ExportOf(o), st.dcfg, "Converges", "restart-export")
          \cup Add(PosComparable(SvcOf(o), st.dcfg) => o.pos = st.dpos, "PositionKept",
                   "restart-pos|positions differ after a restart")
          \cup Add(o.orphans = <<>> /\ o.badrefs = <<>>, "Converges", "restart-integrity|" \o o.integrity)
     /\ st' = IF Sane(o) THEN [st EXCEPT !.cfg = o.svc, !.pos = o.pos, !.dcfg = o.svc, !.dpos = o.pos] ELSE st

Abort == IsEvent("Abort") /\ UNCHANGED <<st, viol>>
End == IsEvent("End") /\ UNCHANGED <<st, viol>>
HarnessError == (IsEvent("HarnessError") \/ IsEvent("Panic") \/ IsEvent("ChildTimeout"))
                /\ st' = [st EXCEPT !.bad = TRUE] /\ UNCHANGED viol
Other == l <= Len(Trace) /\ Ev.ev \notin Known /\ l' = l + 1 /\ UNCHANGED <<st, viol>>

Next == \/ Reset \/ Forks \/ Import \/ ImportRet \/ Plan \/ SetPos \/ Restart \/ Observe \/ Abort \/ End
        \/ HarnessError \/ Other

Spec == Init /\ [][Next]_vars

WellFormed == ~st.bad
TraceAccepted == TLCGet("stats").diameter - 1 = Len(Trace)
=============================================================================
