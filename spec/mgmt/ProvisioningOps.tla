--------------------------- MODULE ProvisioningOps ---------------------------
(* Vocabulary of property C15 (importing a pipeline configuration converges, is idempotent, fails
   atomically, keeps positions).  Shared by the model (Provisioning.tla: case generation + design
   checks) and by the trace validator (ProvisioningTrace.tla: oracle for runs of the REAL
   provisioning.Service).

   A configuration is a record
     [id, name, desc, status, dlq : [plugin, settings, window, threshold],
      conns : Seq([id, type, plugin, name, settings, procs : Seq(Proc)]), procs : Seq(Proc)]
     Proc == [id, plugin, settings, workers, cond]
   Field values are small classes (the driver maps them to concrete strings / maps and back):
     settings  "nil" (absent) | "s0" (empty map) | "s1" | "s2" | "sdef" (the default DLQ settings)
     cond      "none" | "c1" | "c2"          workers 0 (absent) | 1 | 2
     window / threshold  -1 (absent) or the number          name / desc / plugin  "" = absent
   A RAW configuration is what a user writes (absent fields allowed, local ids); Enrich fills the
   defaults and qualifies ids with their parent's id, exactly as the property's "configuration" is
   read by the importer.  The stored configuration is "as Export returns it": enriched, status
   always "stopped" (Import never starts a pipeline; status is runtime state, not configuration). *)
EXTENDS Integers, Sequences, FiniteSets

NoCfg == [id |-> "none"]          \* no pipeline stored
NoPos == ""
NoEnt == [id |-> "", procs |-> <<>>]

SeqMap(Op(_), s) == [i \in 1..Len(s) |-> Op(s[i])]
Rge(s) == {s[i] : i \in 1..Len(s)}
Ids(s) == [i \in 1..Len(s) |-> s[i].id]

(* ------------------------------------------------------------------ Enrich *)
EnrichProc(p, parent) ==
  [p EXCEPT !.id = parent \o ":" \o p.id,
            !.workers = IF p.workers = 0 THEN 1 ELSE p.workers,
            !.settings = IF p.settings = "nil" THEN "s0" ELSE p.settings]
EnrichProcs(ps, parent) == [i \in 1..Len(ps) |-> EnrichProc(ps[i], parent)]

EnrichConn(c, pid) ==
  LET id == pid \o ":" \o c.id IN
  [c EXCEPT !.id = id,
            !.name = IF c.name = "" THEN c.id ELSE c.name,       \* the LOCAL id is the default name
            !.settings = IF c.settings = "nil" THEN "s0" ELSE c.settings,
            !.procs = EnrichProcs(c.procs, id)]

EnrichDLQ(d) ==
  [plugin    |-> IF d.plugin = "" THEN "builtin:log" ELSE d.plugin,
   settings  |-> IF d.settings = "nil" THEN "sdef" ELSE d.settings,
   window    |-> IF d.window = -1 THEN 1 ELSE d.window,
   threshold |-> IF d.threshold = -1 THEN 0 ELSE d.threshold]

Enrich(cfg) ==
  [cfg EXCEPT !.name = IF cfg.name = "" THEN cfg.id ELSE cfg.name,
              !.status = IF cfg.status = "" THEN "running" ELSE cfg.status,
              !.dlq = EnrichDLQ(cfg.dlq),
              !.conns = [i \in 1..Len(cfg.conns) |-> EnrichConn(cfg.conns[i], cfg.id)],
              !.procs = EnrichProcs(cfg.procs, cfg.id)]

\* what Export shows of an (enriched) configuration
ExportView(cfg) == [cfg EXCEPT !.status = "stopped"]

\* the stored configuration a successful Import(raw) must leave behind
Target(raw) == ExportView(Enrich(raw))

(* a configuration with every processor condition blanked: used to tell "everything but the
   conditions is right" from a general mismatch (sharper violation classes) *)
StripProcs(ps) == [i \in 1..Len(ps) |-> [ps[i] EXCEPT !.cond = "none"]]
StripCond(cfg) ==
  IF "conns" \notin DOMAIN cfg THEN cfg
  ELSE [cfg EXCEPT !.conns = [i \in 1..Len(cfg.conns) |->
                                 [cfg.conns[i] EXCEPT !.procs = StripProcs(cfg.conns[i].procs)]],
                   !.procs = StripProcs(cfg.procs)]

(* ------------------------------------------------------------------ positions *)
\* connector c (a record of the NEW configuration) persists: same id and same type in the old one
Persists(old, c) ==
  /\ "conns" \in DOMAIN old
  /\ \E i \in 1..Len(old.conns) : old.conns[i].id = c.id /\ old.conns[i].type = c.type
PosOf(old, pos, id) == pos[CHOOSE i \in 1..Len(old.conns) : old.conns[i].id = id]

\* positions after a successful import: kept for persisting connectors, none for the others
NextPos(old, pos, tgt) ==
  [i \in 1..Len(tgt.conns) |->
     IF Persists(old, tgt.conns[i]) THEN PosOf(old, pos, tgt.conns[i].id) ELSE NoPos]

(* ------------------------------------------------------------------ the import's action list
   Abstract model of the ordered create / update / delete actions an import of `new` (enriched)
   over the stored `old` consists of: first the deletions of what disappears (innermost first),
   then pipeline, connectors and their processors, pipeline processors.  Only used to enumerate
   "the k-th action fails" and for Plan-emptiness; the conformance verdicts never depend on the
   code using this very list. *)
A(res, id, act) == [res |-> res, id |-> id, act |-> act]

RECURSIVE Flat(_)
Flat(ss) == IF Len(ss) = 0 THEN <<>> ELSE Head(ss) \o Flat(Tail(ss))
Rev(s) == [i \in 1..Len(s) |-> s[Len(s) + 1 - i]]

Find(es, id) == IF \E i \in 1..Len(es) : es[i].id = id
                  THEN es[CHOOSE i \in 1..Len(es) : es[i].id = id] ELSE NoEnt
Has(es, id) == \E i \in 1..Len(es) : es[i].id = id

ProcDeletes(oldps, newps) ==
  Flat([i \in 1..Len(oldps) |->
          IF Has(newps, oldps[i].id) THEN <<>> ELSE <<A("processor", oldps[i].id, "delete")>>])

OldPart(old, new) ==
  IF old = NoCfg THEN <<>> ELSE
  Rev(Flat([i \in 1..Len(old.conns) |->
              LET oc == old.conns[i]  nc == Find(new.conns, oc.id) IN
              (IF nc = NoEnt THEN <<A("connector", oc.id, "delete")>> ELSE <<>>)
                \o ProcDeletes(oc.procs, nc.procs)])
      \o ProcDeletes(old.procs, new.procs))

ProcActs(oldps, newps) ==
  Flat([i \in 1..Len(newps) |->
          LET np == newps[i]  op == Find(oldps, np.id) IN
          IF op = NoEnt THEN <<A("processor", np.id, "create")>>
          ELSE IF op = np THEN <<>> ELSE <<A("processor", np.id, "update")>>])

ConnShallowEq(oc, nc) ==
  /\ oc.type = nc.type /\ oc.plugin = nc.plugin /\ oc.name = nc.name /\ oc.settings = nc.settings
  /\ Ids(oc.procs) = Ids(nc.procs)

ConnActs(oc, nc) ==
  IF oc = NoEnt THEN <<A("connector", nc.id, "create")>>
  ELSE IF ConnShallowEq(oc, nc) THEN <<>>
  ELSE IF oc.type = nc.type THEN <<A("connector", nc.id, "update")>>
  ELSE <<A("connector", nc.id, "delete"), A("connector", nc.id, "create")>>

PipeShallowEq(old, new) ==
  /\ old.name = new.name /\ old.desc = new.desc /\ old.dlq = new.dlq
  /\ Ids(old.conns) = Ids(new.conns) /\ Ids(old.procs) = Ids(new.procs)

NewPart(old, new) ==
  (IF old = NoCfg THEN <<A("pipeline", new.id, "create")>>
   ELSE IF PipeShallowEq(old, new) THEN <<>> ELSE <<A("pipeline", new.id, "update")>>)
  \o Flat([i \in 1..Len(new.conns) |->
             LET nc == new.conns[i]
                 oc == IF old = NoCfg THEN NoEnt ELSE Find(old.conns, nc.id) IN
             ConnActs(oc, nc) \o ProcActs(oc.procs, nc.procs)])
  \o ProcActs(IF old = NoCfg THEN <<>> ELSE old.procs, new.procs)

\* old: stored configuration (or NoCfg); new: enriched configuration
Actions(old, new) == OldPart(old, new) \o NewPart(old, new)

\* Plan(desired) is empty exactly when nothing has to change
PlanEmpty(old, raw) == Actions(old, Target(raw)) = <<>>

(* ------------------------------------------------------------------ well-formedness of a configuration *)
NoDup(s) == \A i, j \in 1..Len(s) : s[i] = s[j] => i = j
ValidDLQ(d) == d.window >= 0 /\ d.threshold >= 0 /\ (d.window > 0 => d.threshold < d.window)
ValidCfg(raw) ==
  LET e == Enrich(raw) IN
  /\ NoDup(Ids(e.conns)) /\ NoDup(Ids(e.procs)) /\ ValidDLQ(e.dlq)
  /\ \A i \in 1..Len(e.conns) : NoDup(Ids(e.conns[i].procs))
=============================================================================
