----------------------------- MODULE StoreRestart -----------------------------
(* Property C17: whatever is stored for a pipeline, connector or processor is read back identically
   by a restarted server; documents of older supported formats are still understood; a running
   pipeline is found again as one to be resumed.

   The model works on VALUE CLASSES.  A case is a kind of entity, the way the document gets into
   the store (written through the services, or a document of a given format version put into the
   store), and one class per stored field ("factor").  Actions: Write (the case's values are
   written), Restart (fresh services load the store), Resume (the lifecycle service's Init).
   RestartIsIdentity: after Restart every field is in the class - and, in the recorded traces, has
   the value - it was written with, except the documented normalisation: a Running pipeline comes
   back SystemStopped ("to be resumed") and Resume starts exactly those.

   TLC enumerates the cases and exports them (CASE lines): Cover = "pairs" - every pair of classes
   of every two factors of a kind occurs in some case (pairwise-complete by construction);
   Cover = "full" - the full class product.  The conformance driver instantiates several concrete
   seeded values per case in the real services; StoreRestartTrace.tla validates what was read back.

   Inside a class, byte / text values are SAMPLED, not enumerated.                              *)
EXTENDS StoreRestartOps, Integers, Sequences, FiniteSets, TLC, Json

CONSTANTS Cover,        \* "pairs" | "full"
          Kinds         \* subset of the case families below to enumerate

(* ----------------------------------------------------------------------------- value classes *)
Text     == <<"ascii", "multibyte", "escapes">>
TextE    == <<"empty", "ascii", "multibyte", "escapes", "long">>
Bytes    == <<"nil", "empty", "ascii", "highbit", "invalidutf8", "nul", "long">>
Map      == <<"nil", "empty", "ascii", "unicode", "escapes", "emptyval", "long">>
IdList   == <<"nil", "empty", "one", "three", "permuted">>
Status   == <<"running", "sysstopped", "userstopped", "degraded", "recovering">>
Dlq      == <<"default", "nilsettings", "emptysettings", "unicode", "nowindow">>
Prov     == <<"api", "config">>
Time     == <<"utc", "nano", "micro", "zoneplus", "zoneminus", "zero">>
DstState == <<"nilstate", "nilmap", "emptymap", "one", "twobinary", "nilpos">>
SrcState == <<"nilstate">> \o Bytes

F(n, c) == [name |-> n, classes |-> c]

(* the factors (stored fields) of each case family; `via` says how the document gets into the store *)
Families == [
  pipeline   |-> [kind |-> "pipeline", via |-> "api", format |-> "current", factors |->
                  <<F("name", Text), F("description", TextE), F("status", Status), F("error", TextE),
                    F("dlq", Dlq), F("refs", IdList), F("prov", Prov)>>],
  source     |-> [kind |-> "connector", via |-> "api", format |-> "current", factors |->
                  <<F("name", Text), F("settings", Map), F("state", SrcState), F("procs", IdList),
                    F("lastactive", <<"zero", "set">>), F("prov", Prov)>>],
  destination |-> [kind |-> "connector", via |-> "api", format |-> "current", factors |->
                  <<F("name", Text), F("settings", Map), F("state", DstState), F("procs", IdList),
                    F("lastactive", <<"zero", "set">>), F("prov", Prov)>>],
  processor  |-> [kind |-> "processor", via |-> "api", format |-> "current", factors |->
                  <<F("plugin", <<"ascii", "multibyte">>), F("condition", TextE), F("settings", Map),
                    F("workers", <<"one", "many">>), F("parent", <<"pipeline", "connector">>), F("prov", Prov)>>],
  \* documents put into the store directly: current format with every timestamp class ...
  pipelinedoc |-> [kind |-> "pipeline", via |-> "doc", format |-> "current", factors |->
                  <<F("name", Text), F("description", TextE), F("status", Status), F("error", TextE),
                    F("dlq", Dlq), F("refs", IdList), F("prov", Prov), F("created", Time), F("updated", Time)>>],
  sourcedoc  |-> [kind |-> "connector", via |-> "doc", format |-> "current", factors |->
                  <<F("name", Text), F("settings", Map), F("state", SrcState), F("procs", IdList),
                    F("lastactive", <<"zero", "set">>), F("prov", Prov), F("created", Time), F("updated", Time)>>],
  destinationdoc |-> [kind |-> "connector", via |-> "doc", format |-> "current", factors |->
                  <<F("name", Text), F("settings", Map), F("state", DstState), F("procs", IdList),
                    F("lastactive", <<"zero", "set">>), F("prov", Prov), F("created", Time), F("updated", Time)>>],
  processordoc |-> [kind |-> "processor", via |-> "doc", format |-> "current", factors |->
                  <<F("plugin", <<"ascii", "multibyte">>), F("condition", TextE), F("settings", Map),
                    F("workers", <<"one", "many">>), F("parent", <<"pipeline", "connector">>), F("prov", Prov),
                    F("created", Time), F("updated", Time)>>],
  \* ... and connector documents of the format used until v0.4.0 (connector:connector:<id>, X-prefixed fields)
  pre041source |-> [kind |-> "connector", via |-> "doc", format |-> "pre041", factors |->
                  <<F("name", Text), F("settings", Map), F("state", SrcState), F("procs", IdList),
                    F("prov", Prov), F("created", Time), F("updated", Time)>>],
  pre041destination |-> [kind |-> "connector", via |-> "doc", format |-> "pre041", factors |->
                  <<F("name", Text), F("settings", Map), F("state", DstState), F("procs", IdList),
                    F("prov", Prov), F("created", Time), F("updated", Time)>>]
]

(* ------------------------------------------------------------------------------------ cases *)
NF(fam) == Len(Families[fam].factors)
NC(fam, i) == Len(Families[fam].factors[i].classes)
Cls(fam, i, k) == Families[fam].factors[i].classes[k]

\* the full class product: one choice per factor (mixed-radix decoding of 0 .. product-1)
RECURSIVE ProdUpTo(_, _)
ProdUpTo(fam, i) == IF i = 0 THEN 1 ELSE NC(fam, i) * ProdUpTo(fam, i - 1)
FullIdx(fam) == {[i \in 1..NF(fam) |-> ((n \div ProdUpTo(fam, i - 1)) % NC(fam, i)) + 1] :
                   n \in 0..(ProdUpTo(fam, NF(fam)) - 1)}

\* pairwise: for every two factors f < g and every pair of their classes (a, b) one case; the other
\* factors rotate through their classes so that the remaining pairs are spread as well
PairIdx(fam) ==
  {[h \in 1..NF(fam) |-> IF h = p[1] THEN p[3] ELSE IF h = p[2] THEN p[4] ELSE ((p[3] + p[4] + h) % NC(fam, h)) + 1] :
     p \in {q \in (1..NF(fam)) \X (1..NF(fam)) \X (1..7) \X (1..7) :
              q[1] < q[2] /\ q[3] <= NC(fam, q[1]) /\ q[4] <= NC(fam, q[2])}}

\* (documents put into the store directly multiply every family by 36 timestamp combinations:
\*  they are always enumerated pairwise)
Idx(fam) == IF Cover = "full" /\ Families[fam].via = "api" THEN FullIdx(fam) ELSE PairIdx(fam)

CaseOf(fam, v) ==
  [family |-> fam, kind |-> Families[fam].kind, via |-> Families[fam].via, format |-> Families[fam].format,
   vector |-> [i \in 1..NF(fam) |-> [f |-> Families[fam].factors[i].name, c |-> Cls(fam, i, v[i])]]]

(* ---------------------------------------------------------------------------- state machine *)
VARIABLES case,     \* the case of this behaviour
          store,    \* field -> class, as stored ("" before Write)
          mem,      \* field -> class, as the running services hold it
          phase     \* "new" | "written" | "restarted" | "resumed"
vars == <<case, store, mem, phase>>

FieldsOf(c) == {c.vector[i].f : i \in DOMAIN c.vector}
ClassOf(c, f) == c.vector[CHOOSE i \in DOMAIN c.vector : c.vector[i].f = f].c
Vec(c) == [f \in FieldsOf(c) |-> ClassOf(c, f)]

\* LoadClass / ResumeClass (StoreRestartOps): the documented normalisation of a restart, and what the
\* lifecycle service's Init does with the pipelines found "to be resumed"
Load(s) == [f \in DOMAIN s |-> LoadClass(f, s[f])]
Resumed(s) == [f \in DOMAIN s |-> ResumeClass(f, s[f])]

Init == /\ \E fam \in Kinds : \E v \in Idx(fam) : case = CaseOf(fam, v)
        /\ store = <<>> /\ mem = <<>> /\ phase = "new"

Write   == phase = "new" /\ store' = Vec(case) /\ mem' = Vec(case) /\ phase' = "written" /\ UNCHANGED case
Restart == phase = "written" /\ mem' = Load(store) /\ phase' = "restarted" /\ UNCHANGED <<case, store>>
Resume  == phase = "restarted" /\ mem' = Resumed(mem) /\ phase' = "resumed" /\ UNCHANGED <<case, store>>
Next == Write \/ Restart \/ Resume
Spec == Init /\ [][Next]_vars

(* ------------------------------------------------------------------------------- properties *)
\* a restart is the identity on every stored field, except the documented normalisation
RestartIsIdentity ==
  phase = "restarted" =>
     \A f \in DOMAIN store : mem[f] = (IF f = "status" /\ store[f] = "running" THEN "sysstopped" ELSE store[f])
\* the store itself is never changed by a restart
StoreUntouched == phase \in {"restarted", "resumed"} => store = Vec(case)
\* after Resume: running again iff it was running or waiting to be resumed; nothing else moved
ResumedRunning ==
  phase = "resumed" =>
     \A f \in DOMAIN store :
        mem[f] = (IF f = "status" /\ store[f] \in {"running", "sysstopped"} THEN "running" ELSE store[f])

\* export: one line per case (evaluated in the initial states)
ExportCase == phase # "new" \/ PrintT("CASE " \o ToJson(case))
=============================================================================
