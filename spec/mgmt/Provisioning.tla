----------------------------- MODULE Provisioning -----------------------------
(* Layer-A model of importing pipeline configurations (property C15).

   State   stored  - the stored configuration as Export returns it (after Enrich), or NoCfg
           pos     - the stored position of every connector of `stored` (aligned with stored.conns)
           chain   - history variable: the imports performed so far, with the expected outcome
   Actions Import(raw)        succeeds: stored' = Target(raw); the positions of connectors that persist
                              with the same id and type are kept, the others start without position
           ImportFail(raw, k) the k-th action of the import's action list fails: nothing changes
           (Export and Plan are observations: Export = stored, Plan(raw) empty <=> PlanEmpty)
           After every successful import the environment gives every connector that has no
           position yet a fresh one ("q<step>"), so that kept / reset positions are observable.

   The module is used (1) to check the vocabulary (Converges, Idempotent, FailAtomic,
   PositionKept, PlanExact as TLC invariants over the state and the history variables), and (2) to GENERATE the cases the
   conformance driver replays on the real provisioning.Service: every maximal chain is printed as a
   "CASE {json}" line.  Families (constant Family):
     "procs"   exhaustive: all pairs of processor lists (distinct ids from ProcIds, length <= MaxLen)
               on one connector            "plprocs" the same on the pipeline itself
     "conns"   exhaustive: all pairs of connector lists over ConnIds (every order, every subset;
               with FreeTypes every source/destination assignment)
     "fields"  exhaustive: all pairs over a base configuration and each of its single-field variants
               (name, description, status, DLQ fields, connector type/plugin/name/settings,
               processor plugin/settings/workers/condition, at connector and pipeline level)
     "sim"     the full grammar, sampled with -simulate (RandomElement), chains up to MaxChain,
               failing imports anywhere in the chain                                           *)
EXTENDS ProvisioningOps, TLC, Json

CONSTANTS Family,        \* "procs" | "plprocs" | "conns" | "fields" | "sim"
          ProcIds,       \* e.g. {"p1","p2","p3","p4"}
          ConnIds,       \* e.g. {"a","b","c"}
          MaxLen,        \* longest processor list
          MaxChain,      \* longest chain of imports
          FreeTypes,     \* conns family: enumerate connector types too
          FailAnywhere,  \* TRUE: a failing import may be followed by further imports
          Star           \* fields family: TRUE = only pairs in which one side is the base configuration

VARIABLES chain, stored, pos, prev      \* prev: history variable, <<stored, pos>> before the last step
vars == <<chain, stored, pos, prev>>

PID == "pl"

(* ------------------------------------------------------------------ the grammar *)
RECURSIVE InjSeqs(_, _)
InjSeqs(S, n) ==
  IF n = 0 THEN {<<>>}
  ELSE LET sm == InjSeqs(S, n - 1) IN
       sm \cup {Append(s, e) : <<s, e>> \in {t \in sm \X S : Len(t[1]) = n - 1 /\ t[2] \notin Rge(t[1])}}

ProcAttrs == [plugin : {"pp1", "pp2"}, settings : {"nil", "s1", "s2"}, workers : {0, 1, 2},
              cond : {"none", "c1", "c2"}]
DefProcAttr == [plugin |-> "pp1", settings |-> "s1", workers |-> 1, cond |-> "none"]
MkProc(id, at) == [id |-> id, plugin |-> at.plugin, settings |-> at.settings, workers |-> at.workers,
                   cond |-> at.cond]
DefProcs(ids) == [i \in 1..Len(ids) |-> MkProc(ids[i], DefProcAttr)]

ConnAttrs == [type : {"source", "destination"}, plugin : {"cp1", "cp2"}, name : {"", "cn1"},
              settings : {"nil", "s1", "s2"}]
MkConn(id, at, procs) == [id |-> id, type |-> at.type, plugin |-> at.plugin, name |-> at.name,
                          settings |-> at.settings, procs |-> procs]
DefType(id) == IF id = "b" THEN "destination" ELSE "source"
DefConnAttr(id) == [type |-> DefType(id), plugin |-> "cp1", name |-> "", settings |-> "s1"]

DLQs == {[plugin |-> "", settings |-> "nil", window |-> -1, threshold |-> -1],
         [plugin |-> "dq1", settings |-> "s1", window |-> 2, threshold |-> 1],
         [plugin |-> "", settings |-> "s1", window |-> 0, threshold |-> 0],
         [plugin |-> "dq1", settings |-> "nil", window |-> 3, threshold |-> -1]}
DefDLQ == [plugin |-> "", settings |-> "nil", window |-> -1, threshold |-> -1]

MkPipe(name, desc, status, dlq, conns, procs) ==
  [id |-> PID, name |-> name, desc |-> desc, status |-> status, dlq |-> dlq, conns |-> conns, procs |-> procs]

ProcLists == InjSeqs(ProcIds, MaxLen)

\* --- family "procs": one connector, every processor list
ProcsFamily == {MkPipe("", "", "stopped", DefDLQ, <<MkConn("a", DefConnAttr("a"), DefProcs(l))>>, <<>>) :
                  l \in ProcLists}
PlProcsFamily == {MkPipe("", "", "stopped", DefDLQ, <<MkConn("a", DefConnAttr("a"), <<>>)>>, DefProcs(l)) :
                  l \in ProcLists}

\* --- family "conns": every list of connectors; nested processors so that deleting a connector
\*     carries its processors along
ConnProcs(id) == IF id = "a" THEN DefProcs(<<"p1">>) ELSE IF id = "c" THEN DefProcs(<<"p1", "p2">>) ELSE <<>>
ConnLists == InjSeqs(ConnIds, Cardinality(ConnIds))
TypeChoices(l) == IF FreeTypes THEN [1..Len(l) -> {"source", "destination"}]
                  ELSE {[i \in 1..Len(l) |-> DefType(l[i])]}
ConnsFamily ==
  {MkPipe("", "", "stopped", DefDLQ,
          [i \in 1..Len(l) |-> MkConn(l[i], [DefConnAttr(l[i]) EXCEPT !.type = ty[i]], ConnProcs(l[i]))],
          DefProcs(<<"p1">>)) : <<l, ty>> \in UNION {{<<l2, t>> : t \in TypeChoices(l2)} : l2 \in ConnLists}}

\* --- family "fields": a base configuration and its single-field variants
Base == MkPipe("n1", "d1", "stopped", [plugin |-> "dq1", settings |-> "s1", window |-> 2, threshold |-> 1],
               << MkConn("a", [type |-> "source", plugin |-> "cp1", name |-> "cn1", settings |-> "s1"],
                         DefProcs(<<"p1", "p2">>)),
                  MkConn("b", [type |-> "destination", plugin |-> "cp1", name |-> "cn1", settings |-> "s1"],
                         DefProcs(<<"p1">>)) >>,
               DefProcs(<<"p3">>))
ProcVariants(p) ==
  {[p EXCEPT !.plugin = v] : v \in {"pp2"}} \cup {[p EXCEPT !.settings = v] : v \in {"nil", "s2"}}
  \cup {[p EXCEPT !.workers = v] : v \in {0, 2}} \cup {[p EXCEPT !.cond = v] : v \in {"c1", "c2"}}
ConnVariants(c) ==
  {[c EXCEPT !.type = v] : v \in {"source", "destination"} \ {c.type}}
  \cup {[c EXCEPT !.plugin = "cp2"], [c EXCEPT !.name = ""], [c EXCEPT !.name = "cn2"],
        [c EXCEPT !.settings = "nil"], [c EXCEPT !.settings = "s2"]}
  \cup UNION {{[c EXCEPT !.procs[j] = pv] : pv \in ProcVariants(c.procs[j])} : j \in 1..Len(c.procs)}
FieldsFamily ==
  {Base}
  \cup {[Base EXCEPT !.name = v] : v \in {"", "n2"}} \cup {[Base EXCEPT !.desc = v] : v \in {"", "d2"}}
  \cup {[Base EXCEPT !.status = v] : v \in {"", "running"}}
  \cup {[Base EXCEPT !.dlq = v] : v \in DLQs}
  \cup {[Base EXCEPT !.dlq.plugin = ""], [Base EXCEPT !.dlq.settings = "nil"], [Base EXCEPT !.dlq.settings = "s2"],
        [Base EXCEPT !.dlq.window = 3], [Base EXCEPT !.dlq.threshold = 0]}
  \cup UNION {{[Base EXCEPT !.conns[i] = cv] : cv \in ConnVariants(Base.conns[i])} : i \in 1..Len(Base.conns)}
  \cup UNION {{[Base EXCEPT !.procs[j] = pv] : pv \in ProcVariants(Base.procs[j])} : j \in 1..Len(Base.procs)}

\* --- family "sim": the full grammar, one random element per evaluation (the parameter only
\*     keeps TLC from treating the definition as a constant)
RandProcs(salt) ==
  LET n == RandomElement(0..MaxLen)
      ids == RandomElement({l \in ProcLists : Len(l) = n})
      ats == RandomElement([1..Len(ids) -> ProcAttrs])
  IN [i \in 1..Len(ids) |-> MkProc(ids[i], ats[i])]
RandCfg(salt) ==
  LET n == RandomElement(0..Cardinality(ConnIds))
      ids == RandomElement({l \in ConnLists : Len(l) = n})
      ats == RandomElement([1..Len(ids) -> ConnAttrs])
      top == RandomElement([name : {"", "n1", "n2"}, desc : {"", "d1"}, status : {"", "running", "stopped"},
                            dlq : DLQs])
      p1 == RandProcs(<<salt, 1>>)  p2 == RandProcs(<<salt, 2>>)  p3 == RandProcs(<<salt, 3>>)
      p0 == RandProcs(<<salt, 0>>)
      ps == <<p1, p2, p3>>
  IN MkPipe(top.name, top.desc, top.status, top.dlq,
            [i \in 1..Len(ids) |-> MkConn(ids[i], ats[i], ps[i])], p0)
\* a random small edit of the stored configuration is at least as interesting as a fresh one:
\* re-draw one component and keep the rest
RandEdit(salt, last) ==
  LET fresh == RandCfg(salt)
      what == RandomElement(1..6)
  IN IF last = NoCfg \/ what = 1 THEN fresh
     ELSE IF what = 2 THEN [last EXCEPT !.procs = fresh.procs]
     ELSE IF what = 3 THEN [last EXCEPT !.name = fresh.name, !.desc = fresh.desc, !.dlq = fresh.dlq, !.status = fresh.status]
     ELSE IF what = 4 /\ Len(last.conns) > 0
            THEN LET i == RandomElement(1..Len(last.conns)) IN
                 [last EXCEPT !.conns[i].procs = fresh.procs]
     ELSE IF what = 5 /\ Len(last.conns) > 0
            THEN LET i == RandomElement(1..Len(last.conns))
                     at == RandomElement(ConnAttrs) IN
                 [last EXCEPT !.conns[i] = MkConn(@.id, at, @.procs)]
     ELSE [fresh EXCEPT !.procs = last.procs]

LastRaw == IF Len(chain) = 0 THEN NoCfg ELSE chain[Len(chain)].cfg

Cands ==
  CASE Family = "procs"   -> ProcsFamily
    [] Family = "plprocs" -> PlProcsFamily
    [] Family = "conns"   -> ConnsFamily
    [] Family = "fields"  -> FieldsFamily
    [] Family = "sim"     -> {RandEdit(chain, LastRaw)}

(* ------------------------------------------------------------------ the actions *)
StepNo == Len(chain) + 1
FillPos(p, n) == [i \in 1..Len(p) |-> IF p[i] = NoPos THEN "q" \o ToString(n) ELSE p[i]]

LastFailed == Len(chain) > 0 /\ chain[Len(chain)].fail > 0
Terminal == Len(chain) >= MaxChain \/ (LastFailed /\ ~FailAnywhere)

Init == chain = <<>> /\ stored = NoCfg /\ pos = <<>> /\ prev = [cfg |-> NoCfg, pos |-> <<>>]

StarOk(raw) == ~Star \/ Family # "fields" \/ Len(chain) = 0 \/ raw = Base \/ LastRaw = Base

Import(raw) ==
  /\ ~Terminal /\ ValidCfg(raw) /\ StarOk(raw)
  /\ LET tgt == Target(raw)
         np == FillPos(NextPos(stored, pos, tgt), StepNo) IN
     /\ stored' = tgt
     /\ pos' = np
     /\ prev' = [cfg |-> stored, pos |-> pos]
     /\ chain' = Append(chain, [cfg |-> raw, fail |-> 0, nact |-> Len(Actions(stored, tgt)),
                                expect |-> [cfg |-> tgt, pos |-> np]])

ImportFail(raw, k) ==
  /\ ~Terminal /\ ValidCfg(raw) /\ StarOk(raw)
  /\ k \in 1..Len(Actions(stored, Target(raw)))
  /\ chain' = Append(chain, [cfg |-> raw, fail |-> k, nact |-> Len(Actions(stored, Target(raw))),
                             expect |-> [cfg |-> stored, pos |-> pos]])
  /\ prev' = [cfg |-> stored, pos |-> pos]
  /\ UNCHANGED <<stored, pos>>

MaxActs == 40
NextEx ==
  \E raw \in Cands :
     \/ Import(raw)
     \/ \E k \in 1..MaxActs : ImportFail(raw, k)
\* simulation: one random candidate; one import in three fails at a random action
NextSim ==
  \E raw \in Cands : \E coin \in {RandomElement(1..3)} :
     LET n == Len(Actions(stored, Target(raw))) IN
     IF coin = 1 /\ n > 0 THEN \E k \in {RandomElement(1..n)} : ImportFail(raw, k)
     ELSE Import(raw)
Next == IF Family = "sim" THEN NextSim ELSE NextEx

Spec == Init /\ [][Next]_vars

(* ------------------------------------------------------------------ the properties *)
Last == chain[Len(chain)]

\* Converges: after a successful import, Export is the enriched configuration (status aside)
Converges == (Len(chain) > 0 /\ Last.fail = 0) => stored = ExportView(Enrich(Last.cfg))

\* Idempotent: Plan of the configuration just imported is empty, and importing it again changes
\* neither the configuration nor any position
Idempotent ==
  (Len(chain) > 0 /\ Last.fail = 0) =>
     /\ PlanEmpty(stored, Last.cfg)
     /\ Target(Last.cfg) = stored
     /\ NextPos(stored, pos, Target(Last.cfg)) = pos

\* Plan is empty only if nothing differs (otherwise an import could silently do nothing);
\* evaluated for every candidate at the states after the first import
PlanExact == (Len(chain) = 1 /\ Family # "sim") =>
               \A raw \in Cands : ValidCfg(raw) => (PlanEmpty(stored, raw) <=> stored = Target(raw))

\* FailAtomic: a failed import leaves configuration and positions as they were
FailAtomic == (Len(chain) > 0 /\ Last.fail > 0) => (stored = prev.cfg /\ pos = prev.pos)

\* PositionKept: a connector that persists with the same id and type keeps its position
\* (whatever the outcome); a connector that does not starts without one (then gets "q<step>")
PositionKept ==
  (Len(chain) > 0 /\ stored # NoCfg) =>
     \A i \in 1..Len(stored.conns) :
        IF Persists(prev.cfg, stored.conns[i])
          THEN pos[i] = PosOf(prev.cfg, prev.pos, stored.conns[i].id)
          ELSE pos[i] = "q" \o ToString(Len(chain))
PosAligned == stored = NoCfg \/ Len(pos) = Len(stored.conns)

(* ------------------------------------------------------------------ case export *)
EmitCase == Terminal => PrintT("CASE " \o ToJson([family |-> Family, chain |-> chain]))
\* in simulation every behaviour ends when Terminal holds (no successor); print there
=============================================================================
