------------------------------ MODULE Lifecycle ------------------------------
(* Layer B: the publication protocol of ONE pipeline id in the two lifecycle services
   (pkg/lifecycle/service.go = "v1", pkg/lifecycle-poc/service.go = "v2"), one action per
   critical section: Start (build, publish in runningPipelines, write status Running), Stop
   (resolve the run through the map), the run ending (graceful / transient failure / fatal
   failure / force stop), the cleanup goroutine (status in memory, status in the store, terminal
   error, delete from the map), recovery (status Recovering, back-off, "am I still current?",
   internal Start).  Engine = "v1" deletes compare-and-delete (deleteRunningPipelineIfCurrent),
   Engine = "v2" deletes by key.

   Properties (C11): OneLiveRun, PublishedIsLive (whenever the pipeline is reported running and
   no call is in flight, the map names the live run), StopHitsLive (a stop issued then is not
   answered "not running"), NoOrphan.  (C10): no run is started by recovery after a user stop /
   a fatal failure.  TLC also prints control-call schedules (EmitScript) that the conformance
   harness replays on the real services, holding the status write of the cleanup goroutine with a
   store gate exactly where this model has its CleanupMem -> CleanupStore window.               *)
EXTENDS Naturals, FiniteSets, Sequences, TLC, Json

CONSTANTS Engine, MaxRuns, MaxRetries, AllowFail,
          RecordBeforeDone, \* TRUE: a failing node records its error on the run before it counts itself done (the v2
                            \* engine; the v1 engine since fix F32). FALSE: the cleanup may read the run's result before
                            \* the error is recorded and take a failed run for a gracefully stopped one
          SerializeStarts   \* TRUE: the recovery's internal Start never overlaps a user Start (what a per-pipeline
                            \* start lock would give). FALSE: as in the code - lifecycle.Service.Start has no
                            \* per-pipeline mutual exclusion, the two can interleave (open finding F13)

Runs == 1..MaxRuns
None == 0

VARIABLES
  memStatus,   \* what pipeline.Instance.GetStatus() returns
  storeStatus, \* what is durably stored
  published,   \* runningPipelines[id]
  phase,       \* phase[r]: "new" | "live" | "ended" | "c_store" | "c_del" | "rec_wait" | "gone"
  how,         \* how[r]: "" | "graceful" | "transient" | "fatal"   (why the run ended / will end)
  stopReq,     \* a graceful stop was delivered to run r
  nextRun,
  call,        \* control call in progress: <<"idle">> | <<"start", r, pc>>
  rcall,       \* the recovery goroutine's internal Start in progress (same shape)
  attempts,    \* recovery attempts so far
  stopRefused, \* a Stop was answered "not running" although PublishedIsLive's antecedent held
  userStopped, \* the user's last accepted request was a stop
  script
vars == <<memStatus, storeStatus, published, phase, how, stopReq, nextRun, call, rcall, attempts, stopRefused,
          userStopped, script>>

Init == /\ memStatus = "UserStopped" /\ storeStatus = "UserStopped" /\ published = None
        /\ phase = [r \in Runs |-> "new"] /\ how = [r \in Runs |-> ""]
        /\ stopReq = [r \in Runs |-> FALSE] /\ nextRun = 1 /\ call = <<"idle">> /\ rcall = <<"idle">>
        /\ attempts = 0 /\ stopRefused = FALSE /\ userStopped = TRUE /\ script = <<>>

Live(r) == phase[r] = "live"
Idle == call = <<"idle">>
Log(e) == script' = Append(script, e)

(* ---------------- Start (user) : one call at a time ---------------- *)
StartBegin ==
  /\ Idle /\ (SerializeStarts => rcall = <<"idle">>) /\ nextRun <= MaxRuns /\ memStatus # "Running"
  /\ call' = <<"start", nextRun, "publish">>
  /\ phase' = [phase EXCEPT ![nextRun] = "live"]      \* node goroutines are on the tomb
  /\ nextRun' = nextRun + 1 /\ attempts' = 0 /\ userStopped' = FALSE
  /\ Log("Start")
  /\ UNCHANGED <<rcall, memStatus, storeStatus, published, how, stopReq, stopRefused>>
StartPublish ==
  /\ call[1] = "start" /\ call[3] = "publish"
  /\ published' = call[2]
  /\ call' = <<"start", call[2], "status">>
  /\ UNCHANGED <<rcall, memStatus, storeStatus, phase, how, stopReq, nextRun, attempts, stopRefused, userStopped, script>>
StartStatus ==
  /\ call[1] = "start" /\ call[3] = "status"
  /\ memStatus' = "Running" /\ storeStatus' = "Running"
  /\ call' = <<"idle">>
  /\ UNCHANGED <<rcall, published, phase, how, stopReq, nextRun, attempts, stopRefused, userStopped, script>>

(* ---------------- Stop (user, graceful) ---------------- *)
StopCall ==
  /\ Idle
  \* (a stop that is refused changes nothing: no point in repeating it back to back in a generated schedule)
  /\ IF published # None /\ memStatus \in {"Running", "Recovering"} THEN TRUE
     ELSE IF script = <<>> THEN TRUE ELSE script[Len(script)] # "Stop"
  /\ IF published # None /\ memStatus \in {"Running", "Recovering"}
       THEN /\ stopReq' = [stopReq EXCEPT ![published] = TRUE]
            /\ userStopped' = TRUE /\ UNCHANGED stopRefused
       ELSE /\ stopRefused' = (stopRefused \/ (memStatus = "Running" /\ \E r \in Runs : Live(r)))
            /\ UNCHANGED <<stopReq, userStopped>>
  /\ Log("Stop")
  /\ UNCHANGED <<rcall, memStatus, storeStatus, published, phase, how, nextRun, call, attempts>>

(* ---------------- the run ---------------- *)
RunFails(r, kind) ==
  /\ AllowFail /\ Live(r) /\ how[r] = "" /\ ~(call[1] = "start" /\ call[2] = r) /\ ~(rcall[1] = "start" /\ rcall[2] = r)
  /\ how' = [how EXCEPT ![r] = kind]
  /\ Log(IF kind = "fatal" THEN "FailFatal" ELSE "FailTransient")
  /\ UNCHANGED <<rcall, memStatus, storeStatus, published, phase, stopReq, nextRun, call, attempts, stopRefused, userStopped>>
RunEnds(r) ==
  /\ Live(r) /\ (stopReq[r] \/ how[r] # "")
  /\ ~(call[1] = "start" /\ call[2] = r) /\ ~(rcall[1] = "start" /\ rcall[2] = r)     \* cleanup starts after start-up
  /\ phase' = [phase EXCEPT ![r] = "ended"]
  \* what the cleanup goroutine reads as the run's result
  /\ \/ how' = [how EXCEPT ![r] = IF how[r] = "" THEN "graceful" ELSE how[r]]
     \/ ~RecordBeforeDone /\ how[r] # "" /\ how' = [how EXCEPT ![r] = "graceful"]
  /\ UNCHANGED <<rcall, memStatus, storeStatus, published, stopReq, nextRun, call, attempts, stopRefused, userStopped, script>>

(* ---------------- cleanup goroutine of run r ---------------- *)
Final(r) == IF how[r] = "graceful" THEN "UserStopped" ELSE "Degraded"
Exhausted == attempts >= MaxRetries
\* UpdateStatus sets the in-memory status first ...
CleanupMem(r) ==
  /\ phase[r] = "ended"
  /\ IF how[r] = "transient" /\ ~Exhausted
       THEN memStatus' = "Recovering" /\ attempts' = attempts + 1
       ELSE memStatus' = Final(r) /\ UNCHANGED attempts
  /\ phase' = [phase EXCEPT ![r] = "c_store"]
  /\ Log("CleanupHeld")
  /\ UNCHANGED <<rcall, storeStatus, published, how, stopReq, nextRun, call, stopRefused, userStopped>>
\* ... then writes the store (this write can take arbitrarily long)
CleanupStore(r) ==
  /\ phase[r] = "c_store"
  /\ storeStatus' = memStatus
  /\ phase' = [phase EXCEPT ![r] = IF how[r] = "transient" /\ memStatus = "Recovering" THEN "rec_wait" ELSE "c_del"]
  /\ Log("CleanupReleased")
  /\ UNCHANGED <<rcall, memStatus, published, how, stopReq, nextRun, call, attempts, stopRefused, userStopped>>
\* terminalErrors.Set, then remove the entry from the map
CleanupDelete(r) ==
  /\ phase[r] = "c_del"
  /\ published' = IF Engine = "v1" THEN (IF published = r THEN None ELSE published) ELSE None
  /\ phase' = [phase EXCEPT ![r] = "gone"]
  /\ UNCHANGED <<rcall, memStatus, storeStatus, how, stopReq, nextRun, call, attempts, stopRefused, userStopped, script>>
\* recovery: after the back-off, restart only if this run is still the published one; the restart is
\* an internal Start (status check, build, publish, status write) running in the recovery goroutine
RecoverRestart(r) ==
  /\ phase[r] = "rec_wait" /\ rcall = <<"idle">> /\ (SerializeStarts => Idle)
  /\ IF published = r /\ nextRun <= MaxRuns /\ memStatus # "Running"
       THEN /\ rcall' = <<"start", nextRun, "publish">>
            /\ phase' = [phase EXCEPT ![r] = "gone", ![nextRun] = "live"]
            /\ nextRun' = nextRun + 1
            /\ Log("Recovered")
       ELSE /\ phase' = [phase EXCEPT ![r] = "gone"] /\ UNCHANGED <<rcall, nextRun, script>>
  /\ UNCHANGED <<memStatus, storeStatus, published, how, stopReq, call, attempts, stopRefused, userStopped>>
RecoverPublish ==
  /\ rcall[1] = "start" /\ rcall[3] = "publish"
  /\ published' = rcall[2]
  /\ rcall' = <<"start", rcall[2], "status">>
  /\ UNCHANGED <<memStatus, storeStatus, phase, how, stopReq, nextRun, call, attempts, stopRefused, userStopped, script>>
RecoverStatus ==
  /\ rcall[1] = "start" /\ rcall[3] = "status"
  /\ memStatus' = "Running" /\ storeStatus' = "Running"
  /\ rcall' = <<"idle">>
  /\ UNCHANGED <<published, phase, how, stopReq, nextRun, call, attempts, stopRefused, userStopped, script>>

Next == \/ StartBegin \/ StartPublish \/ StartStatus \/ StopCall
        \/ \E r \in Runs : RunEnds(r) \/ CleanupMem(r) \/ CleanupStore(r) \/ CleanupDelete(r) \/ RecoverRestart(r)
        \/ RecoverPublish \/ RecoverStatus
        \/ \E r \in Runs, k \in {"transient", "fatal"} : RunFails(r, k)
Spec == Init /\ [][Next]_vars

(* ---------------- properties ---------------- *)
OneLiveRun == Cardinality({r \in Runs : Live(r)}) <= 1
PublishedIsLive == (memStatus = "Running" /\ Idle /\ rcall = <<"idle">>) => (published # None /\ phase[published] \in {"live", "ended"})
StopHitsLive == ~stopRefused
NoOrphan == \A r \in Runs : (Live(r) /\ Idle /\ rcall = <<"idle">>) => published = r
Quiet == Idle /\ rcall = <<"idle">> /\ \A r \in Runs : phase[r] \in {"new", "gone"}
StatusAgrees == Quiet => storeStatus = memStatus
\* (C10) a pipeline reported as stopped by the user was stopped by the user: a failure is never taken for a stop
NoPhantomStop == (Quiet /\ memStatus = "UserStopped") => userStopped

Terminal == Quiet /\ nextRun > 1
EmitScript == Terminal => PrintT("SCRIPT " \o ToJson(script))
View == <<memStatus, storeStatus, published, phase, how, stopReq, nextRun, call, rcall, attempts, stopRefused, userStopped>>
=============================================================================
