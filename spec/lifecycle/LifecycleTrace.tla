-------------------------- MODULE LifecycleTrace --------------------------
(* Trace validation of the control plane of one pipeline (C10, C11, C12) on traces of the real
   lifecycle services (v1 pkg/lifecycle, v2 pkg/lifecycle-poc): control calls and their returns,
   the statuses written to the store, Open / Teardown of every plugin, injected faults.
   Total recording actions; violations accumulate in `viol` (see DataPathTrace for the pattern). *)
EXTENDS Naturals, Integers, Sequences, SequencesExt, FiniteSets, Json, TLC

CONSTANT TraceFile
Trace == ndJsonDeserialize(TraceFile)
VARIABLES l, st, viol
vars == <<l, st, viol>>
Ev == Trace[l]
IsEvent(k) == l <= Len(Trace) /\ Ev.ev = k /\ l' = l + 1

Running == 1  SystemStopped == 2  UserStopped == 3  Degraded == 4  Recovering == 5
Stopped == {SystemStopped, UserStopped}

Known == {"Reset", "Call", "Ret", "Durable", "Open", "Teardown", "Fault", "End", "Hang", "Panic",
          "RestartCheck", "Restore", "HarnessError", "ChildTimeout"}

Empty == [scen |-> "", engine |-> "", srcs |-> {}, feats |-> {}, maxRetries |-> 0, minUs |-> 0,
          winUs |-> 0,            \* recovery attempts are counted within this window (0 = the engine default, 5 s)
          recTimes |-> <<>>,      \* times of the recovery restarts since the last user Start
          status |-> 0, statusT |-> 0, live |-> <<>>, stored |-> <<>>,
          startCalls |-> 0,       \* Start calls issued
          startOpen |-> FALSE,    \* a Start call is in flight
          sinceStart |-> [stopOk |-> FALSE, stopAll |-> FALSE, force |-> FALSE, forceOk |-> FALSE,
                          recAfterForce |-> 0, opens |-> 0, recOpens |-> 0, degraded |-> FALSE, stopCalled |-> FALSE],
          runFault |-> FALSE,     \* a plain (non-sentinel) read / write error was injected into the current run
          stopArmed |-> FALSE,    \* a stop call was issued while the pipeline was reported running, with a live
                                  \* run and no start in flight, and nothing has happened to the run since
          recPending |-> FALSE,   \* status Recovering was written and the recovery restart has not opened the source yet
          restartCheck |-> FALSE, storeFaults |-> FALSE, bad |-> FALSE,
          statusWriteFailed |-> FALSE]   \* an injected store fault hit a write of the pipeline's status

Init == l = 1 /\ st = Empty /\ viol = {}
\* what is rendered as a string: the records of one scenario form a set, and TLC cannot compare values of different types
V(inv, what) == [inv |-> inv, at |-> Ev.n, scen |-> st.scen, what |-> ToString(what)]
Add(cond, inv, what) == IF cond THEN {} ELSE {V(inv, what)}
Get(f, k) == IF k \in DOMAIN f THEN f[k] ELSE 0
Put(f, k, v) == IF k \in DOMAIN f THEN [f EXCEPT ![k] = v] ELSE f @@ (k :> v)
Fresh == [stopOk |-> FALSE, stopAll |-> FALSE, force |-> FALSE, forceOk |-> FALSE, recAfterForce |-> 0,
          opens |-> 0, recOpens |-> 0, degraded |-> FALSE, stopCalled |-> FALSE]

Reset ==
  /\ IsEvent("Reset")
  /\ (viol = {} \/ PrintT("VIOLS " \o ToJson(viol)))
  /\ viol' = {}
  /\ st' = [Empty EXCEPT !.scen = Ev.scenario, !.engine = Ev.engine, !.srcs = ToSet(Ev.srcs),
              !.feats = ToSet(Ev.features),
              !.maxRetries = IF "max_retries" \in DOMAIN Ev THEN Ev.max_retries ELSE 0,
              !.minUs = IF "min_delay_ms" \in DOMAIN Ev THEN Ev.min_delay_ms * 1000 ELSE 0,
              !.winUs = IF "retries_window_ms" \in DOMAIN Ev /\ Ev.retries_window_ms > 0
                          THEN Ev.retries_window_ms * 1000 ELSE 5000000,
              !.storeFaults = "store-fault" \in ToSet(Ev.features)]

(* C10 "no more than the configured number of attempts within the configured window": the engine counts an
   attempt from the moment it decides to restart until the window has elapsed.  Observed are the restarts'
   source opens, which trail the decision by the back-off and the start-up: an earlier restart is counted as
   surely inside the window only if it opened less than (window - 250 ms) ago (no false alarm from that lag). *)
RecentRecoveries(t) == Cardinality({k \in DOMAIN st.recTimes : t - st.recTimes[k] < st.winUs - 250000})

SrcLive == \E s \in st.srcs : Get(st.live, s) > 0

Call ==
  /\ IsEvent("Call")
  /\ st' = IF Ev.call = "Start"
             \* a user Start while a recovery restart is pending: the next open is the user's, not recovery's
             THEN [st EXCEPT !.startCalls = @ + 1, !.startOpen = TRUE, !.sinceStart = Fresh, !.recPending = FALSE,
                             !.recTimes = <<>>]
           ELSE IF Ev.call = "StopAll" THEN [st EXCEPT !.sinceStart.stopAll = TRUE, !.sinceStart.stopCalled = TRUE]
           ELSE IF Ev.call \in {"Stop", "StopAndWait", "ForceStop"}
             THEN [st EXCEPT !.sinceStart.force = @ \/ Ev.call = "ForceStop", !.sinceStart.stopCalled = TRUE,
                             !.stopArmed = Ev.reported = "Running" /\ ~st.startOpen /\ SrcLive]
           ELSE st
  /\ UNCHANGED viol

Ret ==
  /\ IsEvent("Ret")
  /\ LET nil == Ev.err.nil
         notRunning == ~nil /\ "sentinel" \in DOMAIN Ev.err /\ Ev.err.sentinel = "ErrPipelineNotRunning" IN
     /\ st' = IF Ev.call = "Start" THEN [st EXCEPT !.startOpen = FALSE]
              ELSE IF Ev.call \in {"Stop", "StopAndWait"} /\ nil THEN [st EXCEPT !.sinceStart.stopOk = TRUE]
              ELSE IF Ev.call = "ForceStop" /\ nil THEN [st EXCEPT !.sinceStart.forceOk = TRUE]
              ELSE st
     /\ viol' = viol
          \* C11: while the pipeline is reported running (and nothing is starting or failing) a stop
          \* request acts on that run - it is not answered "not running"
          \cup (IF Ev.call \in {"Stop", "StopAndWait", "ForceStop"} /\ notRunning
                  THEN Add(~st.stopArmed, "StopHitsLive", Ev.err.msg)
                  ELSE {})
          \* C11: wait returns only once the run it waited for has ended, with that run's result
          \* (not judged while a Start call is in flight: the wait overlaps it, and which run - the failed one or
          \*  the one being started, whose Start has already discarded the old result - it waited for is open)
          \cup (IF Ev.call = "WaitPipeline" /\ st.startCalls > 0 /\ ~st.startOpen
                  THEN Add(~(nil /\ st.status = Degraded), "WaitReturnsOwnResult", "nil although the run failed")
                  ELSE {})
          \* C11/C12: once a run has ended the pipeline can be started again
          \cup (IF Ev.call = "Start" /\ st.restartCheck
                  THEN Add(nil, "Restartable", Ev.err.msg) ELSE {})

Durable ==
  /\ IsEvent("Durable")
  /\ IF Ev.class = "pipeline" /\ ~("del" \in DOMAIN Ev)
       THEN /\ st' = [st EXCEPT !.status = Ev.status, !.stopArmed = FALSE,
                                !.statusT = IF Ev.status = Recovering THEN Ev.t ELSE @,
                                !.recPending = IF Ev.status = Recovering THEN TRUE
                                               ELSE IF Ev.status \in {Degraded, UserStopped, SystemStopped} THEN FALSE ELSE @,
                                !.sinceStart.degraded = @ \/ Ev.status = Degraded]
            /\ viol' = viol
                 \* C10: a user-stopped / shut-down / degraded pipeline does not go back to recovering or
                 \* running on its own (only a Start call may do that)
                 \cup Add(~(Ev.status \in {Recovering} /\ st.status \in Stopped \cup {Degraded} /\ st.startCalls > 0
                            /\ ~st.startOpen), "StoppedStaysStopped", <<st.status, Ev.status>>)
                 \* C10: a run into which a plain read / write error was injected, and which nobody asked to stop,
                 \* does not end as "stopped by the user": the failure is classified (Recovering / Degraded)
                 \cup Add(~(Ev.status = UserStopped /\ st.runFault /\ ~st.sinceStart.stopCalled /\ st.startCalls > 0
                            /\ ~st.restartCheck), "TransientRecovers",
                          "a failed run was stored as stopped by the user although no stop was requested")
     ELSE IF Ev.class = "connector" /\ Ev.id \in st.srcs /\ ~("del" \in DOMAIN Ev)
       THEN st' = [st EXCEPT !.stored = Put(@, Ev.id, Ev.idx)] /\ UNCHANGED viol
     ELSE UNCHANGED <<st, viol>>

Open ==
  /\ IsEvent("Open")
  /\ IF ~Ev.ok THEN UNCHANGED <<st, viol>>
     ELSE IF Ev.kind = "source" /\ Ev.conn \in st.srcs
       THEN LET recovery == st.recPending /\ ~st.startOpen IN
            /\ st' = [st EXCEPT !.live = Put(@, Ev.conn, Get(@, Ev.conn) + 1),
                                !.recPending = FALSE, !.runFault = FALSE,
                                !.sinceStart.opens = @ + 1,
                                !.sinceStart.recOpens = IF recovery THEN @ + 1 ELSE @,
                                !.recTimes = IF recovery THEN Append(@, Ev.t) ELSE @,
                                !.sinceStart.recAfterForce = IF recovery /\ st.sinceStart.forceOk THEN @ + 1 ELSE @]
            /\ viol' = viol
                 \cup Add(Get(st.live, Ev.conn) = 0, "OneLiveRun", Ev.conn)
                 \* C10: never restarted automatically after a fatal failure / a stop / shutdown
                 \cup Add(st.startOpen \/ ~st.sinceStart.degraded, "NoRestartAfterFatal", Ev.conn)
                 \cup Add(st.startOpen \/ ~(st.status \in Stopped), "StoppedStaysStopped", Ev.conn)
                 \* C10: bounded number of recovery attempts, each after the back-off delay
                 \cup (IF recovery
                         THEN Add(RecentRecoveries(Ev.t) < st.maxRetries, "RecoveryBounded", RecentRecoveries(Ev.t) + 1)
                              \cup Add(Ev.t - st.statusT >= st.minUs, "BackoffLowerBound", Ev.t - st.statusT)
                              \cup Add(st.storeFaults \/ Ev.idx = Get(st.stored, Ev.conn), "RestartFromDurable",
                                       <<Ev.idx, Get(st.stored, Ev.conn)>>)
                         ELSE {})
                 \cup (IF st.restartCheck
                         THEN Add(st.storeFaults \/ Ev.idx = Get(st.stored, Ev.conn), "RestartFromDurable",
                                  <<Ev.idx, Get(st.stored, Ev.conn)>>)
                         ELSE {})
     ELSE st' = [st EXCEPT !.live = Put(@, Ev.key, Get(@, Ev.key) + 1)] /\ UNCHANGED viol

Teardown ==
  /\ IsEvent("Teardown")
  /\ st' = IF Get(st.live, Ev.key) > 0
             THEN [st EXCEPT !.live = Put(@, Ev.key, Get(@, Ev.key) - 1), !.stopArmed = FALSE]
             ELSE [st EXCEPT !.stopArmed = FALSE]
  /\ UNCHANGED viol

RestartCheck == IsEvent("RestartCheck") /\ st' = [st EXCEPT !.restartCheck = TRUE, !.statusWriteFailed = FALSE] /\ UNCHANGED viol

AllDown == \A k \in DOMAIN st.live : st.live[k] = 0

End ==
  /\ IsEvent("End")
  /\ UNCHANGED st
  /\ viol' = viol
       \* C11: the stored status agrees with how the last run ended; every plugin released
       \cup Add(~(Ev.status \in {"Running", "Recovering"} /\ AllDown /\ st.startCalls > 0), "StatusAgrees",
                <<Ev.status, "all plugins torn down">>)
       \* ... and so does the STORED status (what a restarted server would find): the last durable status write
       \* (when the store refused a status write the stored status cannot follow: not judged then)
       \cup (IF st.statusWriteFailed THEN {}
             ELSE Add(~(st.status \in {Running, Recovering} /\ AllDown /\ st.startCalls > 0), "StatusAgrees",
                      <<"stored status", st.status, "reported", Ev.status, "all plugins torn down">>))
       \cup Add(~(Ev.status \notin {"Running", "Recovering"}) \/ AllDown, "ReleasedAfterEnd", Ev.status)
       \* C10/C12 expectations declared by the scenario
       \cup (IF "expect-fatal" \in st.feats /\ ~st.restartCheck
               THEN Add(Ev.status = "Degraded" /\ Ev.error # "", "FatalDegrades", <<Ev.status, Ev.error>>)
                    \cup Add(st.sinceStart.recOpens = 0, "NoRestartAfterFatal", st.sinceStart.recOpens)
               ELSE {})
       \cup (IF "expect-userstop" \in st.feats /\ ~st.restartCheck
               THEN Add(Ev.status = "UserStopped", "StoppedStaysStopped", Ev.status) ELSE {})
       \cup (IF "expect-systemstop" \in st.feats /\ ~st.restartCheck
               THEN Add(Ev.status = "SystemStopped", "StoppedStaysStopped", Ev.status) ELSE {})
       \cup (IF "expect-recover" \in st.feats /\ ~st.restartCheck
               THEN Add(st.sinceStart.recOpens >= 1 \/ st.maxRetries = 0, "TransientRecovers", st.sinceStart.recOpens)
               ELSE {})
       \* failures further apart than the window are each a first attempt: all of them are recovered
       \cup (IF "expect-recover-spaced" \in st.feats /\ ~st.restartCheck
               THEN Add(Ev.status # "Degraded" /\ st.sinceStart.recOpens > st.maxRetries, "TransientRecovers",
                        <<"failures outside the retry window were not all recovered", Ev.status, st.sinceStart.recOpens>>)
               ELSE {})
       \cup (IF "expect-exhausted" \in st.feats /\ ~st.restartCheck
               THEN Add(Ev.status = "Degraded", "TransientRecovers", <<"not degraded after exhausted retries", Ev.status>>)
               ELSE {})
       \* C12: an accepted force stop marks the pipeline failed-by-force-stop, without automatic restart
       \cup (IF st.sinceStart.forceOk /\ ~st.restartCheck
               THEN Add(Ev.status = "Degraded", "ForceIsFatalNoRestart", Ev.status)
                    \cup Add(st.sinceStart.recAfterForce = 0, "ForceIsFatalNoRestart", "restarted after the force stop")
               ELSE {})

Hang  == IsEvent("Hang")  /\ viol' = viol \cup {V("NoHang", Ev.call)} /\ UNCHANGED st
Panic == IsEvent("Panic") /\ viol' = viol \cup {V("NoPanic", Ev.stderr)} /\ UNCHANGED st
Fault == IsEvent("Fault") /\ UNCHANGED viol
         /\ st' = [st EXCEPT !.stopArmed = FALSE,
                             !.runFault = @ \/ (Ev.what \in {"read-err", "write-err"} /\ "err" \in DOMAIN Ev
                                                /\ Ev.err \notin {"", "EOF", "canceled", "deadline", "wrap:EOF", "wrap:canceled", "wrap:deadline"}),
                             !.statusWriteFailed = @ \/ (Ev.what = "store-set" /\ "key" \in DOMAIN Ev /\ Ev.key = "pipeline:instance:pl")]
Restore == IsEvent("Restore") /\ st' = [st EXCEPT !.live = <<>>] /\ UNCHANGED viol
HarnessError == (IsEvent("HarnessError") \/ IsEvent("ChildTimeout")) /\ st' = [st EXCEPT !.bad = TRUE] /\ UNCHANGED viol
Other == l <= Len(Trace) /\ Ev.ev \notin Known /\ l' = l + 1 /\ UNCHANGED <<st, viol>>

Next == Reset \/ Call \/ Ret \/ Durable \/ Open \/ Teardown \/ RestartCheck \/ End \/ Hang \/ Panic \/ Fault
        \/ Restore \/ HarnessError \/ Other
Spec == Init /\ [][Next]_vars
WellFormed == ~st.bad
TraceAccepted == TLCGet("stats").diameter - 1 = Len(Trace)
=============================================================================
