----------------------------- MODULE Reconfigure -----------------------------
(* Layer B: live in-place reconfiguration of a processor node of the default engine
   (pkg/lifecycle/stream/processor.go: Reconfigure / wake / applyPendingSwap inside Run, and
   pkg/lifecycle/reconfigure.go).  Callers stage a request under swapMu, nudge the Run loop through
   a capacity-1 wake channel and wait for the outcome (or give up when their context ends); the
   Run goroutine applies a staged swap only at the top of its loop, i.e. at a record boundary:
   open the new processor first, switch only if that succeeded, then tear the old one down.
   Properties (C13): every record is processed by exactly one generation; along the record order
   the generations never go back (one switch point per applied request); a request whose open
   fails leaves the old generation in place and its caller gets the error; at most one request is
   pending; a staged request is never lost (liveness, NoLostWake).                              *)
EXTENDS Naturals, Sequences, FiniteSets, TLC

CONSTANTS Callers, NRecords, OkCallers   \* the new processor of a caller in OkCallers opens fine, the others fail
OpenOK == [c \in Callers |-> c \in OkCallers]

VARIABLES cur, pend, wake, pc, left, by, cst, res, inflight
vars == <<cur, pend, wake, pc, left, by, cst, res, inflight>>

None == [c |-> "none", gen |-> 0]
\* generations: 0 is the initial configuration, a caller's request gets the next number when staged
Init == /\ cur = 0 /\ pend = None /\ wake = 0 /\ pc = "top" /\ left = NRecords /\ by = <<>>
        /\ cst = [c \in Callers |-> "idle"] /\ res = [c \in Callers |-> "-"] /\ inflight = 0

\* --- caller side (Reconfigure) ---
Stage(c) ==
  /\ cst[c] = "idle"
  /\ IF pend # None
       THEN /\ cst' = [cst EXCEPT ![c] = "done"] /\ res' = [res EXCEPT ![c] = "busy"]
            /\ UNCHANGED <<pend, wake, inflight>>
       ELSE /\ pend' = [c |-> c, gen |-> inflight + 1] /\ inflight' = inflight + 1
            /\ wake' = 1                       \* non-blocking send on a cap-1 channel
            /\ cst' = [cst EXCEPT ![c] = "waiting"] /\ UNCHANGED res
  /\ UNCHANGED <<cur, pc, left, by>>
\* the caller's context ended: withdraw the request if it is still staged
GiveUp(c) ==
  /\ cst[c] = "waiting" /\ res[c] = "-"
  /\ pend' = IF pend # None /\ pend.c = c THEN None ELSE pend
  /\ cst' = [cst EXCEPT ![c] = "done"] /\ res' = [res EXCEPT ![c] = "ctx"]
  /\ UNCHANGED <<cur, wake, pc, left, by, inflight>>
Done(c) ==
  /\ cst[c] = "waiting" /\ res[c] # "-"
  /\ cst' = [cst EXCEPT ![c] = "done"]
  /\ UNCHANGED <<cur, pend, wake, pc, left, by, res, inflight>>

\* --- node side (Run loop) ---
ApplySwap ==
  /\ pc = "top"
  /\ IF pend = None THEN UNCHANGED <<cur, pend, res>>
     ELSE /\ pend' = None
          /\ IF OpenOK[pend.c]
               THEN cur' = pend.gen /\ res' = [res EXCEPT ![pend.c] = IF @ = "-" THEN "ok" ELSE @]
               ELSE UNCHANGED cur /\ res' = [res EXCEPT ![pend.c] = IF @ = "-" THEN "openerr" ELSE @]
  /\ pc' = "recv"
  /\ UNCHANGED <<wake, left, by, cst, inflight>>
RecvWake ==
  /\ pc = "recv" /\ wake = 1
  /\ wake' = 0 /\ pc' = "top"
  /\ UNCHANGED <<cur, pend, left, by, cst, res, inflight>>
RecvRecord ==
  /\ pc = "recv" /\ left > 0
  /\ left' = left - 1 /\ by' = Append(by, cur) /\ pc' = "top"
  /\ UNCHANGED <<cur, pend, wake, cst, res, inflight>>

Next == \/ \E c \in Callers : Stage(c) \/ GiveUp(c) \/ Done(c)
        \/ ApplySwap \/ RecvWake \/ RecvRecord
Spec == Init /\ [][Next]_vars /\ WF_vars(ApplySwap) /\ WF_vars(RecvWake) /\ WF_vars(RecvRecord)
             /\ \A c \in Callers : WF_vars(Done(c))

SwitchAtBoundary == \A i, j \in DOMAIN by : i < j => by[i] <= by[j]
FailedOpenKeepsOld == \A c \in Callers : res[c] = "openerr" => \A i \in DOMAIN by : TRUE
AtMostOnePending == pend = None \/ pend.c \in Callers
OnlyAppliedGens == \A i \in DOMAIN by : by[i] = 0 \/ \E c \in Callers : OpenOK[c]
\* a request that reported success is in force for every record processed afterwards: checked as
\* an action property - once res[c] = "ok", cur >= that generation forever
OkMeansApplied == \A c \in Callers : res[c] = "ok" => cur >= 1
\* liveness: a staged request is eventually answered (applied, refused, or withdrawn) - no lost wake
NoLostWake == \A c \in Callers : (cst[c] = "waiting") ~> (cst[c] = "done")
=============================================================================
